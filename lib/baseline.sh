#!/bin/bash
# Runs the repository's pinned test suite with the `verif` guard OFF.
. "$(dirname "$0")/env.sh"
cd /repo && "$GO" build ./... && "$GO" test -vet=off -count=1 -timeout 25m ./... "$@"
