#!/bin/bash
# usage: lib/thorough_all.sh [IDs...]  -- runs the thorough tier of each check in turn on /repo's working tree,
# keeps a copy of each evidence file under evidence/thorough/ and a one-line summary in evidence/thorough/SUMMARY.txt
cd /verif
mkdir -p evidence/thorough
ids="$@"; [ -n "$ids" ] || ids="C01 C02 C03 C04 C05 C06 C07 C08 C09 C10 C11 C12 C13 C14 C15 C16 C17 C18 C19 C20"
for id in $ids; do
  cp evidence/$id.json .thorough-keep-$id.json 2>/dev/null
  out=$(./check $id thorough 2>&1); rc=$?
  cp evidence/$id.json evidence/thorough/$id.json
  mv .thorough-keep-$id.json evidence/$id.json 2>/dev/null
  echo "$out" > evidence/thorough/$id.log
  echo "rc=$rc $(echo "$out" | tail -1)" | tee -a evidence/thorough/SUMMARY.txt
  echo "$out" | grep "^VIOLATION\|^  sig=" | cut -c1-300 | tee -a evidence/thorough/SUMMARY.txt
done
echo FINISHED | tee -a evidence/thorough/SUMMARY.txt
