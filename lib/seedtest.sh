#!/bin/bash
# usage: lib/seedtest.sh <patch.diff> <ID> [ID...]   -- applies the patch to /repo, runs the quick checks, reverts.
# Prints one line per check: CAUGHT / MISSED (exit code, first VIOLATION line). Never leaves /repo modified.
set -u
PATCH="$1"; shift
cd /repo || exit 2
if [ -n "$(git status --porcelain --untracked-files=no)" ]; then echo "/repo not clean"; exit 2; fi
git apply "$PATCH" || { echo "patch does not apply"; exit 2; }
trap 'git -C /repo checkout -- . >/dev/null 2>&1' EXIT
for ID in "$@"; do
  # the evidence file of the property must keep describing the unchanged tree
  cp /verif/evidence/$ID.json /verif/.seedtest-evidence-$ID.json 2>/dev/null
  out=$(cd /verif && VERIF_SEED=${VERIF_SEED:-1} ./check "$ID" ${TIER:-quick} 2>&1)
  rc=$?
  mv /verif/.seedtest-evidence-$ID.json /verif/evidence/$ID.json 2>/dev/null
  v=$(echo "$out" | grep -m1 "^VIOLATION" | cut -c1-160)
  s=$(echo "$out" | grep -m3 "^  sig=" | cut -c1-200 | tr '\n' ';')
  last=$(echo "$out" | tail -1 | cut -c1-200)
  if [ $rc -eq 1 ] && [ -n "$v" ]; then echo "CAUGHT $ID rc=$rc $s"; else echo "MISSED $ID rc=$rc :: $last"; fi
done
