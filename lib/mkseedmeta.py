#!/usr/bin/env python3
"""Writes /verif/seeded/<id>/meta.json for every kept seeded change.

usage: lib/mkseedmeta.py [seedall output file]
The static part (which property, what the change is, what it needs to manifest, which checks are
run against it) is the table below; the result part is taken from the output of lib/seedall.sh
when given (lines "<seed> <check> CAUGHT|MISSED ...").
"""
import json, os, re, sys

ROOT = "/verif/seeded"
AGENT = "fresh sub-agent given only the property text and a scratch worktree of /repo"
OWN = "hand-written mutant (author of the checks)"

# id: (property, checks, change, needs)
T = {
 "C01-s1": ("C01", ["C01"], "vim.go viSelectSurround: `bpos == -1 || epos == -1` -> `&&`; a surround region with epos=-1 reaches viChangeTo, index out of range [-1]",
            "vi command mode, a line with the surround character before the cursor and none after it, keys c s <char> <replacement>"),
 "C01-s2": ("C01", ["C01"], "internal/core/keys.go ReadKey: io.EOF no longer aborts the command reading its argument key; the loop spins on (0, EOF)",
            "an argument-reading command (vi f/r/\", emacs C-q) whose argument is not yet buffered, then EOF on the terminal at that read"),
 "C02-s1": ("C02", ["C02"], "internal/keymap/dispatch.go MatchMain: `len(read) > 0` -> `len(read) == 1`; characters whose UTF-8 lead byte matches a bound prefix (0xEF..., U+F000-U+FFFF) are dropped",
            "a typed character in U+F000-U+FFFF other than U+FFFD (fullwidth forms, halfwidth katakana)"),
 "C02-s2": ("C02", ["C02"], "two sites: convertInput fast path with convert-meta off no longer reassembles characters cut by a read boundary, matchMultibyte drops an incomplete character instead of waiting",
            "convert-meta off, a multi-byte character whose bytes arrive in two reads"),
 "C03-s1": ("C03", ["C03"], "internal/keymap/dispatch.go: the remembered shorter bind (m.prefixed) is not cleared on an exact match of the longer one; a later unbound key runs it",
            "bind table with X bound and a proper prefix of bound XY; type XY, then a key that matches nothing"),
 "C03-s2": ("C03", ["C03"], "internal/strutil/key.go ConvertMeta: fast path looks at the first key only; a bound sequence with a Meta key in second or later position can no longer be typed",
            "a user bind whose sequence has a \\M-x key after a non-Meta first key"),
 "C04-s1": ("C04", ["C04"], "internal/strutil/len.go LineSpan: rows = (len-1)/width; cursor placed one row up when prompt+cursor columns are an exact multiple of the width",
            "prompt width + cursor column == n * terminal width (wrapped buffer with the cursor on the first cell of a row, or a buffer exactly filling a row)"),
 "C04-s2": ("C04", ["C04"], "internal/display/engine.go displayLine: erase-to-end-of-line sent before the buffer text instead of after it; remnants on the last row of a wrapped buffer that shrinks",
            "a buffer wrapped over >= 2 rows made shorter while still spanning >= 2 rows"),
 "C05-s1": ("C05", ["C05"], "internal/core/keys.go ReadKey: keys read in the same read() after a command's argument key are dropped",
            "a read boundary exactly between a command and its argument key, and more keys in the read holding the argument"),
 "C05-s2": ("C05", ["C05"], "internal/core/keys_unix.go GetCursorPos: type-ahead located before the cursor report in the same read is dropped",
            "keys arriving in the same read() as a cursor-position report asked by the main loop, in front of it"),
 "C06-s1": ("C06", ["C06"], "Vi command mode cursor left past the last character after an undefined key cancels an incremental search",
            "vi mode, incremental search started from command mode, then a key undefined in the search keymap"),
 "C06-s2": ("C06", ["C06"], "internal/editor/buffers.go Write/WriteTo hand the caller's slice to the named registers: a yank into \"a then an appending yank into \"A writes into the line's backing array",
            "vi named register, yank-whole-line on a non-last line of a multi-line buffer, then an appending yank into the same register"),
 "C07-s1": ("C07", ["C07"], "internal/history/undo.go Undo: position no longer clamped when running past the oldest state; a later redo indexes items[-1] (panic)",
            "two or more undos past the oldest state of the line, then redo"),
 "C07-s2": ("C07", ["C07"], "internal/history/undo.go Save: early return for skipped saves moved above `defer h.Reset()`; typed text after an undo is entered in the middle of the undo history",
            "undo, then typed text (self-insert skips its save), then redo / undo"),
 "C08-s1": ("C08", ["C08"], "internal/history/sources.go Write: duplicate check done against the active source only; a line equal to the active source's last entry is recorded in no source",
            "two bound history sources whose most recent entries differ, accepted line equal to the last entry of the active one"),
 "C08-s2": ("C08", ["C08", "C10"], "internal/history/file.go Write: file opened O_WRONLY, the torn-tail check (ReadAt) fails silently; a record appended after a torn one is glued to it and lost on reload",
            "file-backed history whose last record is torn (no trailing newline), then an accepted line, then a reload (C08 reloads file sources from disk after every call and starts one in four with a torn record; C10 reaches it through its fault schedule)"),
 "C09-s1": ("C09", ["C09"], "internal/history/sources.go Walk: `h.skip = false` dropped before the Save made when leaving the typed line; beginning-of-history forgets the line being typed",
            "type text, M-< (beginning-of-history, which arms SkipSave), come back down past the newest entry"),
 "C09-s2": ("C09", ["C09"], "internal/history/sources.go match: substring searches compile the search text as a regexp (QuoteMeta dropped)",
            "a substring / non-incremental search whose text has regexp metacharacters ('a.b' matches 'axb'; 'foo[' finds nothing)"),
 "C10-s1": ("C10", ["C10"], "same change as C08-s2 (history file opened write-only), demonstrated against durability",
            "a torn append (crash in the middle of a write), restart, one more entry written, reopen"),
 "C10-s2": ("C10", ["C10"], "internal/history/file.go openHist: scanner.Buffer limit MaxInt32 -> MaxUint16; an entry above 64 KiB ends the reading of the file",
            "one entry whose JSON record exceeds 65535 bytes, then a reopen"),
 "C11-s1": ("C11", ["C11"], "internal/term/raw_unix.go MakeRaw: CS8 / VMIN=1 / VTIME=0 set before the old state is saved; Restore puts raw values back",
            "a terminal whose VMIN/VTIME differ from 1/0 before the call (application timed reads)"),
 "C11-s2": ("C11", ["C11"], "internal/display/engine.go AcceptLine: ClearScreenBelow -> ClearLineAfter; the row below the input still holds the hint / menu / minibuffer at exit",
            "something displayed below the input at exit: hint, isearch minibuffer, completion menu"),
 "C12-s1": ("C12", ["C12"], "inputrc/parse.go findStringEnd: raw index seq[pos+1] on a backslash; an unterminated quoted string ending in a backslash panics",
            "an inputrc line with an unterminated quoted string whose last character is a backslash"),
 "C12-s2": ("C12", ["C12"], "inputrc/parse.go Parse resets p.depth to 0: the $include nesting bound is never reached, a cyclic include overflows the stack",
            "an include graph with a cycle (self-include, A<->B)"),
 "C13-s1": ("C13", ["C13"], "inputrc/parse.go doSet: `set keymap` inside an inactive $if block still selects the keymap",
            "set keymap K in an inactive block (or not-taken $else), K != current keymap, then an active bind"),
 "C13-s2": ("C13", ["C13"], "inputrc/parse.go $include: the sub-parser loses WithTerm(p.term); $if term= in included files is tested against an empty terminal name",
            "an included file with a $if term= block, and a non-empty matching terminal name"),
 "C14-s1": ("C14", ["C14"], "internal/completion/insert.go insertCandidate: `<` -> `<=` early return before the completed-line copy is rebuilt; a stale copy replaces the whole buffer",
            "the selected candidate equals the word being completed and is not unique, after an earlier menu completion on the same Shell"),
 "C14-s2": ("C14", ["C14"], "internal/completion/utils.go setPrefix measures the word on Engine.Line() (with the virtual candidate) but cuts it from the real line",
            "completions regenerated while a candidate is selected: C-f (incremental search) in the menu, or a resize"),
 "C15-s1": ("C15", ["C15"], "internal/completion/group.go initCompletionAliased: maxY = len(grid) instead of len(rows); wrapped alias rows are never reached",
            "an aliased group whose aliases do not fit on half the terminal width"),
 "C15-s2": ("C15", ["C15"], "internal/completion/utils.go cyclePreviousGroup: `break` dropped; stepping backward out of the first group skips a group",
            ">= 2 completion groups and menu-complete-backward crossing the start of the list"),
 "C16-s1": ("C16", ["C16"], "vim.go viDeleteChar: loop stop test Char()=='\\n' -> OnEmptyLine(); x with a count cuts the newline ending the line, the register becomes linewise",
            "multi-line buffer, cursor on a non-last line, count == characters left on the line + 1"),
 "C16-s2": ("C16", ["C16"], "internal/editor/buffers.go writeNum: early return when the ring holds 10 entries; from the 11th kill on nothing is stored",
            "more than 10 kills on the same Shell"),
 "C17-s1": ("C17", ["C17"], "internal/core/selection.go Cut: byte length used as a character count; delete removes extra characters after a selection holding multi-byte characters",
            "deleted text with a multi-byte character and text after it"),
 "C17-s2": ("C17", ["C17"], "internal/editor/buffers.go Write: blank-only text is not written; a yank of a blank-only region copies nothing while delete removes it",
            "a motion / text object covering only blanks"),
 "C18-s1": ("C18", ["C18"], "internal/core/keys.go Pop no longer records the popped key for the macro recorder; di\" is recorded as di",
            "a vi macro with an operator + i/a + a surround character that is not a bound text object"),
 "C18-s2": ("C18", ["C18"], "internal/macro/engine.go StopRecord: the empty-recording guard moved before `recording = false`; after an empty recording the engine keeps recording",
            "an empty recording, then another macro recorded and replayed on the same Shell"),
 "C19-s1": ("C19", ["C19"], "inputrc/inputrc.go escape: the <= 0xff bound of IsMeta dropped; runes above U+00FF with bit 7 set are written as over-long octal",
            "a key sequence or macro with one of 1635 printable runes above U+00FF (U+20AC ...)"),
 "C19-s2": ("C19", ["C19"], "emacs.go dumpMacros: macro text used as the Printf format",
            "a macro whose key sequence or body contains '%', dumped in inputrc format"),
 "C20-s1": ("C20", ["C20"], "internal/core/keys_unix.go GetCursorPos: `case k.waiting, k.reading` -> `case k.waiting`; a resize / Printf while a command waits for its argument key reads the terminal itself: deadlock",
            "SIGWINCH or Shell.Printf from another goroutine between a command key and its argument key"),
 "C20-s2": ("C20", ["C20"], "internal/core/keys_unix.go readInputFiltered decrements cursorReq as well as GetCursorPos: every second asynchronous redisplay never gets its report",
            "two asynchronous redisplays (resize / Printf) in the Shell's lifetime while the terminal is being read"),

 # second round (fresh sub-agents asked for breaks that need an unusual input, a state history over several commands or calls, a configuration, a fault, or two cooperating sites)
 "C01-s3": ("C01", ["C01"], "internal/completion/isearch.go: the reset of IsearchRegex moved from IsearchStop to IsearchStart; the next completion menu dereferences the nil search buffer", "an incremental search started and ended earlier on the same Shell, then a completion menu with an unselected candidate"),
 "C01-s4": ("C01", ["C01"], "internal/core/keys.go ReadKey: only io.EOF aborts the command reading its argument key; a persistent non-EOF read error spins", "an argument-reading command, then EIO (not EOF) on the terminal at that read"),
 "C02-s3": ("C02", ["C02"], "internal/core/keys_unix.go GetCursorPos: input read without a cursor report is no longer passed through convertInput; the tail of a character cut by the 1024-byte read buffer is lost", "a paste of multi-byte text longer than the library's 1024-byte read buffer, in one write"),
 "C02-s4": ("C02", ["C02", "C20"], "internal/core/keys.go extractCursorPos: keys read in front of an asynchronous cursor report are dropped", "Shell.Printf / a resize while the shell waits, with keys typed at that instant arriving in the same read as the answer, in front of it (needs an asynchronous redisplay: reached by C20's clean schedules, not by C02's workload)"),
 "C03-s3": ("C03", ["C03"], "internal/keymap/dispatch.go: the remembered shorter bind is not cleared when the longer bind runs (same site as C03-s1, found independently)", "S bound and prefix of bound L; L typed in full, later any unmatched key"),
 "C03-s4": ("C03", ["C03"], "internal/core/keys.go MatchedKeys: keys given back by the dispatcher are queued behind the waiting keys instead of in front", "a macro of two or more keys containing a bound sequence that is a prefix of a longer bind, or run while a local keymap is active"),
 "C04-s3": ("C04", ["C04"], "internal/core/line.go DisplayLine: the erase-to-start-of-line of continuation rows runs before the move to the indent column; columns 1..indent-1 keep earlier content", "prompt of 3+ columns (or 2 with a buffer of 3+ lines), a continuation row landing on a row that showed wrapped text at the previous redisplay"),
 "C04-s4": ("C04", ["C04"], "internal/term: GetWidth caches the width, invalidated only by SIGWINCH during a call; a resize between two calls is missed", "two Readline calls in one process with a width change between them"),
 "C05-s3": ("C05", ["C05"], "internal/macro/engine.go RecordKeys records Caller() instead of MacroKeys(): a prefix of a multi-key sequence pending at a read boundary is recorded twice", "Emacs macro recording and replay with a read boundary inside a multi-key sequence of the recording"),
 "C05-s4": ("C05", ["C05"], "internal/core/keys.go convertInput: the partial-character slice is reused in place; two consecutive reads ending mid-character overwrite the lead byte of the character just completed", "two adjacent multi-byte characters with different lead bytes and two consecutive reads that both end mid-character, the middle read short"),
 "C06-s3": ("C06", ["C06"], "internal/editor/buffers.go Write/WriteTo pass the caller's slice on (same change as C06-s2, found independently)", "vi named register, Y on a non-last line of a multi-line buffer, then an appending yank"),
 "C06-s4": ("C06", ["C06"], "internal/completion/isearch.go resetIsearchInsertMode: the saved mode is cleared before the final CheckCommand test, which never runs; Vi command mode is left with the cursor past the end", "vi command mode, ?<whole entry>RET (or / on a history line), or an incremental search with a selected match cancelled by a non-search key"),
 "C07-s3": ("C07", ["C07"], "internal/history/sources.go Init: the per-call reset of the typed line's undo list uses the history position left by the previous call", "two calls on one Shell: text typed then a history line accepted; in the next call two or more undos"),
 "C07-s4": ("C07", ["C07"], "internal/history/undo.go Save: the 'same text, different cursor' branch is gone; two adjacent states with the same text make one undo worth two redos", "a saving command, a cursor move, a second saving command, then 2+ undos and as many redos"),
 "C08-s3": ("C08", ["C08"], "internal/history/sources.go Write: the duplicate test is done once against the active source, outside the per-source loop", "two bound sources whose newest entries differ, accepted line equal to one of them"),
 "C08-s4": ("C08", ["C08"], "history.go acceptLineWith: hold/infer arguments transposed at the call site taken when AcceptMultiline returns true", "AcceptMultiline set and an accepting command other than plain accept-line"),
 "C09-s3": ("C09", ["C09"], "internal/history/undo.go getLineHistory: the per-line state table keyed by distance from the newest entry instead of absolute index", "an entry displayed in one call, a new line accepted (appended), a later call moving to a distance visited before"),
 "C09-s4": ("C09", ["C09"], "internal/completion/isearch.go updateIncrementalSearch: the in-progress text is only restored when nothing matches; with the search text deleted entirely the emptied line stays", "C-r on a non-empty in-progress line, a search text that finds a match, deleted again entirely, then accept"),
 "C10-s3": ("C10", ["C10"], "internal/history/file.go openHist rewritten with bufio.Reader.ReadLine: a cut fragment longer than 4096 bytes is never dropped and every later line is decoded glued to it", "an entry above 4 KiB, a crash 4096+ bytes into its append, an append after restart, another reopen"),
 "C10-s4": ("C10", ["C10"], "internal/history/file.go: the torn-tail check moved to load time into NewSourceFromFile only; Sources.AddFromFile builds the source by hand and loses it", "a history bound with Shell.History.AddFromFile, a torn append, a write after restart, another reopen"),
 "C11-s3": ("C11", ["C11"], "internal/term/raw_unix.go MakeRaw remembers the last canonical state in a package variable and restores it when it finds the terminal non-canonical", "an earlier call on a canonical terminal, then a call after the application turned ICANON off"),
 "C11-s4": ("C11", ["C11"], "readline.go / shell.go: the 'returning' guard of the deferred AcceptLine became a Shell field that is never reset; after any normal return a panicking command leaves the cursor in the input row", "same Shell: a call that returned normally, then a panic in a bound command in a later call"),
 "C12-s3": ("C12", ["C12"], "inputrc/parse.go maxIncludeDepth 16 -> 100: a file on a cycle that includes the cycle twice is parsed 2^100 times", "a self-including file with two $include lines (or two files including each other twice)"),
 "C12-s4": ("C12", ["C12"], "inputrc/config.go: NewConfig pre-creates the eight keymaps and Config.Bind loses its nil-map check; a bind after `set keymap <other name>` writes into a nil map", "non-strict parse, set keymap with a name outside the eight, then a bind"),
 "C13-s3": ("C13", ["C13"], "inputrc/parse.go $include: the sub-parser is a copy of the parser sharing the conds backing array; the included file's $if/$else overwrite the enclosing conditions", "$include inside an $if block, the included file with its own $if, more directives after the $include in the same block"),
 "C13-s4": ("C13", ["C13"], "internal/keymap/config.go ReloadConfig: `append(opts, defaults...)`: the default mode emacs and $TERM override the application's WithMode / WithTerm", "NewShell with WithMode(vi) or WithTerm(t != $TERM) and a file with $if mode= / term= blocks"),
 "C14-s3": ("C14", ["C14"], "internal/completion/insert.go insertCandidate: the completed line shares the real line's array and the prefix cut is skipped for an empty prefix; Line.Insert then writes over the text after the cursor", "empty word being completed with text after the cursor, 2+ candidates, then a second menu move or C-c"),
 "C14-s4": ("C14", ["C14"], "internal/completion: ResetForce computes revertLine before leaving the menu, IsearchStop no longer resets the search's start buffer: C-c in a menu restores the buffer of an earlier history search", "an incremental history search earlier on the same Shell, then a completion menu and C-c"),
 "C15-s3": ("C15", ["C15"], "internal/completion/group.go initCompletionAliased maxY = len(grid) (same change as C15-s1, found independently)", "an aliased group whose aliases wrap"),
 "C15-s4": ("C15", ["C15"], "internal/completion/engine.go Select no longer enters the menu keymap; with autocomplete on the first Tab is the only path that relied on it", "set autocomplete on and a non-empty line at the first completion key"),
 "C16-s3": ("C16", ["C16"], "internal/display/engine.go displayLine: the matching-bracket highlight is reset before being set, so it survives the redisplay; Selection.Cut then deletes the matching bracket and returns nothing", "set blink-matching-paren on, cursor on a bracket with a partner, a kill through Selection.Cut"),
 "C16-s4": ("C16", ["C16"], "emacs.go killLine rewritten in the pending-selection style loses the final cursor reset", "kill-line inside a non-last line of a multi-line buffer, then yank"),
 "C17-s3": ("C17", ["C17"], "same change as C16-s3 (matching-bracket highlight left in the selection): delete cuts the partner bracket, yank copies the motion's text", "set blink-matching-paren on, operator from a bracket or a visual motion ending on one"),
 "C17-s4": ("C17", ["C17"], "internal/keymap/pending.go RunPending: a guard stops a cancelled operator from being popped; the next use of the same operator is taken for its doubled form (yy / dd)", "y or d started and cancelled with Escape earlier on the same Shell, then the same operator again"),
 "C18-s3": ("C18", ["C18"], "history.go acceptLineWith: StopRecord moved above the AcceptMultiline test; a Return refused by AcceptMultiline ends the recording", "AcceptMultiline set and K containing Return on a refused line with keys after it"),
 "C18-s4": ("C18", ["C18"], "internal/macro/engine.go StopRecord: empty-recording guard moved first (same change as C18-s2, found independently)", "an empty recording, then keys, then a record-and-replay on the same Shell"),
 "C19-s3": ("C19", ["C19"], "inputrc/inputrc.go escape: octal codes written without leading zeros; C-\\ followed by a digit reads back as another character", "a sequence or macro with 0x1c immediately followed by a digit 0-7"),
 "C19-s4": ("C19", ["C19"], "emacs.go dumpMacros prints its line as a Printf format (same idea as C19-s2)", "a macro whose key sequence or body contains '%'"),
 "C20-s3": ("C20", ["C20"], "internal/core/keys_unix.go GetCursorPos snapshots only k.waiting under the lock; k.reading is forgotten (same break as C20-s1 dressed as a race clean-up)", "a resize / Printf between a key-reading command and its argument key"),
 "C20-s4": ("C20", ["C20"], "internal/core/keys.go extractCursorPos cuts the reports out of the input in place; keys following a report in the same read overwrite the report handed to the requester", "a resize / Printf while the shell waits, the answer followed by typed keys in the same read"),
 # third round (sub-agents, eight properties)
 "C01-s5": ("C01", ["C01"], "internal/ui/prompt.go formatRightPrompt: the padding of the right-side / tooltip prompt is built before the test that the prompt fits; a negative padding length panics in strings.Repeat",
            "an application right prompt or tooltip and an input line whose last row leaves less room than the prompt is wide"),
 "C01-s6": ("C01", ["C01"], "internal/history/sources.go Delete: the index of the active source is kept when sources are removed; the next call indexes past the remaining names",
            "2+ history sources, the user cycling to a later one, the application removing sources between two calls, then another call"),
 "C03-s5": ("C03", ["C03"], "internal/keymap: the sorted list of a keymap's sequences is cached at the first dispatched key and only dropped by ReloadConfig; binds changed through the API afterwards are not dispatched (or stale ones are)",
            "keys dispatched once, then the table changed through Config.Bind / deletions from Config.Binds, then keys again"),
 "C03-s6": ("C03", ["C03", "C18"], "internal/core/keys.go flushFed: keys fed to the key stack (macros, fed-back keys) are converted with byte(key) instead of UTF-8 encoded",
            "a macro (bound or recorded) holding a character above U+007F"),
 "C04-s5": ("C04", ["C04"], "internal/term: terminal size cached in the process, forgotten only by the SIGWINCH watcher that runs during a call",
            "a width change between two Readline calls of one process"),
 "C04-s6": ("C04", ["C04"], "internal/ui/hint.go CoordinatesHint: a hint line that fills the terminal width exactly is counted one row too many; the redisplay moves up one row too far",
            "an application hint (Hint.Set / status text) whose width is exactly the terminal width"),
 "C08-s5": ("C08", ["C08"], "internal/history/sources.go Write: the duplicate test is hoisted out of the per-source loop and made against the active source (GetLast)",
            "two bound sources whose newest entries differ, accepted line equal to the newest entry of one of them"),
 "C08-s6": ("C08", ["C08"], "inputrc/config.go GetString answers for int variables; NewSources then reads history-size as a non-empty string and caps every source at 500 entries",
            "a history source already holding 500 or more entries"),
 "C10-s5": ("C10", ["C10"], "internal/history/file.go: the 'file ends on a newline' test is made once at load time instead of before every append",
            "a source opened before another writer (or a crash of another process) leaves a torn record, then an append through the first source, then a reopen"),
 "C10-s6": ("C10", ["C10"], "internal/history/file.go openHist: one preallocated 1 MiB scanner buffer with a 1 MiB limit; a longer record ends the reading of the file",
            "a record above 1 MiB followed by other records, then a reopen"),
 "C12-s5": ("C12", ["C12"], "inputrc/parse.go expandIncludePath: the guard `~/` loosened to `~` while the expansion still slices file[2:]",
            "`$include ~` (a one-character path)"),
 "C12-s6": ("C12", ["C12"], "inputrc/config.go ReadFile: the nil test of ReadFileFunc dropped",
            "an $include parsed into a Config that has no ReadFileFunc (NewConfig() used directly)"),
 "C19-s5": ("C19", ["C19"], "inputrc/inputrc.go escape: octal codes written with strconv.FormatInt, losing the zero padding to three digits",
            "a Control/Meta character written in octal whose code has fewer than three octal digits, or that is followed by an octal digit"),
 "C19-s6": ("C19", ["C19"], "internal/keymap PrintBinds: the command -> sequences list is cached per keymap and only dropped by ReloadConfig; dump-functions prints a stale picture",
            "a dump, then binds changed through the API (Config.Bind), then a second dump"),
 "C20-s5": ("C20", ["C20"], "internal/display/display_unix.go WatchResize: the completion grid is only laid out again when more than one row is displayed",
            "a one-row completion list on screen and a resize to a width at which it no longer fits on one row"),
 "C20-s6": ("C20", ["C20"], "internal/core/keys.go extractCursorPos cuts the reports out of the input in place; keys following a report in the same read overwrite the report handed to the asynchronous requester",
            "a resize / Printf while the shell waits, the terminal's answer followed by typed keys in the same read"),
 "C01-s5": ("C01", ["C01"], "internal/ui/prompt.go formatRightPrompt pads before the fit check: strings.Repeat with a negative count panics", "a right-side prompt or tooltip set by the application and a line reaching the right margin"),
 "C01-s6": ("C01", ["C01"], "internal/history/sources.go Delete only resets the active source index when the active source itself is removed", "several history sources, the user cycling to the last one, the application removing an earlier one between two calls"),
 "C03-s5": ("C03", ["C03"], "internal/keymap: the sorted sequences of a keymap are cached at the first dispatched key and only dropped by ReloadConfig", "binds added or removed through Config.Bind / Config.Binds after a first call"),
 "C03-s6": ("C03", ["C18"], "internal/core/keys.go: keys fed by a macro are truncated to bytes on their way to the front of the queue", "a macro (or recorded keyboard macro) containing non-ASCII characters"),
 "C04-s5": ("C04", ["C04"], "internal/term: the terminal size is cached in the process and forgotten only by the SIGWINCH watcher", "a process whose terminals differ in size from one Shell / call to the next (every worker of the display check)"),
 "C04-s6": ("C04", ["C04"], "internal/ui/hint.go CoordinatesHint counts one row too many for a hint that fills its last row exactly", "an application hint (Hint.Set) whose width is a multiple of the terminal width, prompt not on the top row"),
 "C08-s5": ("C08", ["C08"], "internal/history/sources.go Write: the repeated-line test is hoisted out of the loop and asks the active source only", "several sources whose newest entries differ, a line equal to the newest entry of one of them"),
 "C08-s6": ("C08", ["C08"], "inputrc/config.go GetString answers for int variables: NewSources takes an unset history-size as given, cap 500", "no history-size configured and a source that already holds 500 entries or more"),
 "C10-s5": ("C10", ["C10"], "internal/history/file.go: whether the file ends on a newline is checked once at load time and cached", "two sources on one file; the other writer dies inside an append; the survivor writes"),
 "C10-s6": ("C10", ["C10"], "internal/history/file.go openHist reads through one preallocated 1 MiB scanner buffer", "one record whose JSON line is above 1 MiB"),
 "C12-s5": ("C12", ["C12"], "inputrc/parse.go expandIncludePath: the guard loosened from \"~/\" to \"~\" while file[2:] stays", "`$include ~` (a path of one character)"),
 "C12-s6": ("C12", ["C12"], "inputrc: $include dereferences the handler's ReadFileFunc without a nil check", "a handler made with NewConfig() and ReadFileFunc unset, a text with $include"),
 "C19-s5": ("C19", ["C19"], "inputrc/inputrc.go escape writes octal codes without zero padding", "a sequence where an octal-escaped character is followed by an octal digit"),
 "C19-s6": ("C19", ["C19"], "internal/keymap PrintBinds caches command -> sequences per keymap, dropped only by ReloadConfig", "dump-functions, binds changed through the API, dump-functions again"),
 "C20-s5": ("C20", ["C20"], "internal/display WatchResize only recomputes the completion grid when compRows > 0 (which is rows-1)", "a one-row completion list displayed, then a resize to a narrower terminal"),
 "C20-s6": ("C20", ["C20"], "internal/core/keys.go extractCursorPos: one-pass version whose report is a sub-slice of the input, overwritten by the keys that follow it in the same read", "a resize / Printf at an input wait with the next keys typed behind the answer"),

 # third round, second half (the twelve other properties)
 "C02-s5": ("C02", ["C02"], "internal/core/line.go Line.Set copies into the line's own array; the display's suggestion line aliases that array and writes the highlighted text over the input line", "an application SyntaxHighlighter that changes the text it is given, history-autosuggest with no matching entry"),
 "C02-s6": ("C02", ["C02"], "internal/keymap/dispatch.go: multi-byte characters for which unicode.IsPrint is false are dropped by the dispatcher", "typed text with U+3000, U+00A0, U+200D, typographic spaces, private-use or format characters"),
 "C05-s5": ("C05", ["C05"], "internal/core/keys.go convertInput: the scan for a cut multi-byte character only looks at the last read", "a 3- or 4-byte character delivered in three or more reads"),
 "C05-s6": ("C05", ["C05"], "readline.go: the post-run hint / argument housekeeping moved to the top of the loop; an iteration that only matched a prefix resets the pending numeric argument", "a numeric argument followed by a command bound to a multi-byte sequence, with a read boundary inside that sequence"),
 "C07-s5": ("C07", ["C07"], "internal/history/undo.go Save: a byte-length vs rune-length pre-check in front of the same-text test; two adjacent undo items with the same text on non-ASCII lines", "a line with a multi-byte character, two consecutive saving commands, then 2+ undos and as many redos"),
 "C07-s6": ("C07", ["C07"], "internal/history/sources.go Init: the undo history of the typed line is kept when the previous call was accepted from a history line", "call N: text typed, a history line accepted; call N+1: undo"),
 "C09-s5": ("C09", ["C09"], "internal/history/sources.go Walk: an emptied line being typed is not saved when leaving it for the history", "type text, undo back to the empty line (or kill it with a command that skips its save), go up, come back down"),
 "C09-s6": ("C09", ["C09"], "internal/completion/isearch.go: incremental search does not give the typed text back when the search text is deleted down to nothing", "C-r on a non-empty in-progress line that is a prefix of an entry, a search text that matches, deleted again entirely, then Enter / Escape"),
 "C11-s5": ("C11", ["C11"], "internal/term/raw_unix.go Restore puts back only the settings raw mode changes and forgets VMIN / VTIME", "a terminal whose VMIN/VTIME are not 1/0 before the call"),
 "C11-s6": ("C11", ["C11"], "readline.go: a deferred SetMain(vi-insert) registered before the deferred cursor-style reset prints the insert-mode cursor style after it", "Vi editing mode, any way out of the call"),
 "C13-s5": ("C13", ["C13"], "inputrc/parse.go $include handled by a copy of the including parser that shares the condition stack", "$include inside an $if block, the included file with its own $if of another truth value, directives after the $include"),
 "C13-s6": ("C13", ["C13"], "internal/keymap/config.go ReloadConfig: library defaults appended after the application's options override WithMode / WithTerm", "NewShell with WithMode / WithTerm other than emacs / $TERM and a file with $if mode= / term= blocks"),
 "C14-s5": ("C14", ["C14"], "internal/completion/insert.go: the virtual completed line shares its array with the real input line", "cycling through candidates with text after the cursor"),
 "C14-s6": ("C14", ["C14"], "readline.go: UpdateInserted only runs when a candidate is inserted; a list displayed without a selection keeps the menu keymap and the old prefix", "possible-completions (or a first Tab with menu-complete-display-prefix), then typed keys, then Tab"),
 "C15-s5": ("C15", ["C15"], "internal/completion/engine.go: with autocomplete on, Select no longer enters the menu keymap; menu-complete stays on the first candidate", "set autocomplete on and a non-empty line"),
 "C15-s6": ("C15", ["C15"], "internal/completion/insert.go: with an empty prefix the completed line shares the line's array; cycling overwrites the text after the cursor", "empty word, text after the cursor, a candidate not longer than that text, 2+ presses"),
 "C16-s5": ("C16", ["C16"], "emacs.go: backward word kills with a numeric argument >= 2 store the words in the wrong order", "M-2 C-w / M-3 M-DEL with at least two words before the cursor"),
 "C16-s6": ("C16", ["C16"], "internal/display/engine.go: matching-bracket highlight regions outlive the redisplay and are cut by the next kill", "set blink-matching-paren on, cursor on a bracket with a partner, a kill through Selection.Cut"),
 "C17-s5": ("C17", ["C17"], "internal/display/engine.go: a stale bracket matcher region is taken by the Vi delete operator (same family as C16-s6, found independently)", "set blink-matching-paren on, cursor on a bracket with a partner at the last redisplay, d<motion>"),
 "C17-s6": ("C17", ["C17"], "vim.go viDeleteTo: a 'failed motion' guard returns when the pending selection is empty before the inclusive adjustment", "a motion / text object that ends where it starts: diw on a one-letter word, de on the last character, di\" around one character"),
 "C18-s5": ("C18", ["C18"], "internal/core/keys.go: the three key-popping helpers merged; Pop no longer records the key for the macro recorder", "a Vi macro with an operator + i/a + a surround character"),
 "C18-s6": ("C18", ["C18"], "internal/macro/engine.go: a macro consisting only of the key that ends it is saved; a line accepted between recording and replay replaces the macro", "a macro recorded in one call and replayed in a later call on the same Shell"),
 "C06-s5": ("C06", ["C06"], "history.go acceptLineWith: NonIsearchStop runs before History.InsertMatch (a defer removed); CheckCommand runs before the match is inserted", "vi command mode, ?<whole entry>RET or ?RET"),
 "C06-s6": ("C06", ["C06"], "internal/editor/buffers.go Write/WriteTo lose their copy: a lettered register aliases the line (same idea as C06-s2, found independently by a third agent)", "\"aY on a non-last line of a multi-line buffer, then \"AY"),
 # fourth round
 "C04-s7": ("C04", ["C04"], "internal/completion/display.go Display only sends ESC[0J when a list had been printed before: rows of a taller earlier frame stay", "a frame at least two rows shorter than the one before, no completion menu shown before"),
 "C04-s8": ("C04", ["C04"], "internal/display/engine.go computeCoordinates queries the cursor position once per prompt instead of at every redisplay", "the width of the prompt's last line changing within one call: show-mode-in-prompt with mode strings of different widths, or a prompt function whose output changes"),
 "C05-s7": ("C05", ["C05"], "internal/core/keys_unix.go GetCursorPos: keys sharing a read with the cursor report are queued without convertInput", "a character cut by the previous read whose rest arrives with the report, or a Meta character with convert-meta on arriving with the report"),
 "C05-s8": ("C05", ["C05"], "internal/core/keys.go: flushFed removed from PopKey/PeekKey and the 'keys already waiting' test moved above the flush in WaitAvailableKeys: keys read along with a feeding command overtake the fed keys", "macro replay, a macro-bound sequence, do-lowercase-version or prefix-meta followed by more keys in the same read"),
 "C08-s7": ("C08", ["C08"], "internal/history/sources.go Write: the same-as-newest test hoisted out of the per-source loop and asked of the active source only (third independent find of this family)", "two sources whose newest entries differ, a line equal to one of them"),
 "C08-s8": ("C08", ["C08"], "history.go acceptLineWith: hold / infer swapped at the call made when AcceptMultiline is set", "AcceptMultiline set and accept-and-hold / operate-and-get-next / accept-and-infer-next-history"),
 "C10-s7": ("C10", ["C10"], "internal/history/file.go: torn tail detected at load time by JSON decoding and cached; Write opens O_WRONLY", "a crash exactly before the final newline of an append (a complete object without newline), or two sources on one file"),
 "C10-s8": ("C10", ["C10"], "internal/history/file.go Write builds the record with strconv.AppendQuote instead of json.Marshal", "a line with a C0 control other than \\b\\t\\n\\f\\r, DEL, a non-printable astral character or invalid UTF-8"),
 "C20-s7": ("C20", ["C20"], "internal/core/keys.go extractCursorPos compacts the read buffer in place; the report handed over aliases it (third independent find of this family)", "an asynchronous redisplay with the next key arriving behind the report in the same read"),
 "C20-s8": ("C20", ["C20"], "internal/core/keys_unix.go readInputFiltered decrements cursorReq when it hands a report over, GetCursorPos decrements too", "the second asynchronous redisplay in the lifetime of the Shell"),

 "C03-s7": ("C03", ["C03"], "internal/keymap/dispatch.go: the test for giving the ruling-out key back changed from bind.Action != \"\" to command != nil: a macro bind has no command", "a sequence bound to a macro that is also a proper prefix of a longer binding, then a key that rules the longer one out"),
 "C03-s8": ("C03", ["C03"], "internal/core/keys.go MatchedKeys: keys given back go through Feed (runes) instead of being prepended as bytes: a lone lead byte of a multi-byte character becomes U+FFFD", "a / ab bound and a multi-byte ruling-out key, or a multi-byte character typed while a local keymap is active"),
 "C07-s7": ("C07", ["C07"], "history.go up/down-line-or-history call SkipSave like the other line movements: the arrival state of the second history line visited is never saved", "two or more C-p, then typed text, then undos: the recalled line's stored text is never reached"),
 "C07-s8": ("C07", ["C07"], "internal/history/undo.go Undo: 'starting to undo' read from the undoing flag, which the main loop clears after every command: older states are appended again at every undo", "two or more consecutive undos, then more redos than undos that changed the line"),
 "C09-s7": ("C09", ["C09"], "internal/history/sources.go Walk: h.skip = false dropped before the Save made when leaving the typed line (same site as C09-s1, found independently)", "beginning-of-history from typed text, then back down past the newest entry"),
 "C09-s8": ("C09", ["C09"], "internal/completion/isearch.go NonIsearchStart: two branches merged, the search cursor is no longer put at the end of the repeated text; match() cuts the text at the cursor", "Vi command mode, ?text RET (right), then n / N: every entry matches"),
 "C11-s7": ("C11", ["C11"], "internal/term/raw_unix.go Restore puts back only the flag bits MakeRaw changes, not VMIN / VTIME (third independent find of this family)", "VMIN/VTIME other than 1/0 before the call"),
 "C11-s8": ("C11", ["C11"], "readline.go / internal/display: the cursor style reset moved from a deferred print in Readline to the end of AcceptLine; RunPending reprints the keymap's style after it", "Vi command mode with an operator pending (d, c, y, with or without a count), then Return or C-c"),
 "C13-s7": ("C13", ["C13"], "inputrc/parse.go $include: the sub-parser is a struct copy sharing the condition stack (third independent find of this family)", "$include inside an active block, an included file whose last block at that level is inactive, directives after the $include"),
 "C13-s8": ("C13", ["C13"], "inputrc/parse.go findStringEnd: a quote is taken as escaped when the character before it is a backslash, also after an escaped backslash", "a quoted key sequence or macro ending with \\\\ right before the closing quote"),
 "C14-s7": ("C14", ["C14"], "internal/completion/engine.go Autocomplete: as-you-type completions are not regenerated when the line text is unchanged; the prefix depends on the cursor too", "set autocomplete on, a cursor-only movement to another word, then Tab"),
 "C14-s8": ("C14", ["C14"], "internal/completion/insert.go: the completed line is reset with Line.Set (shares the array) and the prefix cut is skipped for an empty prefix: the candidate is written over the text after the cursor", "empty word, text after the cursor, then C-c or a second Tab"),
 "C16-s7": ("C16", ["C16"], "emacs.go cutRange helper + internal/core/line.go Line.Cut in place: the slice handed to the kill ring aliases the line and is overwritten by the cut", "shell-kill-word / shell-backward-kill-word with text left after the killed range"),
 "C16-s8": ("C16", ["C16"], "internal/editor/buffers.go: the numbered registers become a slice, newest first; the cap keeps the last N and drops the entry just pushed", "an 11th kill on the same Shell"),
 "C18-s7": ("C18", ["C18"], "internal/core/keys.go PopForce becomes PopKey and loses mustWait = false: a lone ESC handled by handleEscape is not recorded", "a recording with an ESC that leaves Vi insert mode, the ESC being the last byte of a read"),
 "C18-s8": ("C18", ["C18"], "internal/macro/engine.go: macros stored as typed, RunMacro no longer unescapes, RunLastMacro still does", "a macro containing a backslash, replayed with C-x e"),

 "C01-s7": ("C01", ["C01"], "history.go yank-nth-arg: the bounds check reduced to argNth > len(words), the negative conversion rewritten: a negative argument larger in magnitude than the word count indexes words[-1]", "a non-empty history, yank-nth-arg bound to a key, an argument of -3 or less on a two-word line"),
 "C01-s8": ("C01", ["C01"], "internal/core/selection.go HighlightMatchers flattened, the len(split) > index guard lost", "set blink-matching-paren on and the cursor on a closing bracket without an opener"),
 "C02-s7": ("C02", ["C02"], "internal/keymap/dispatch.go matchBind: \\M- binds also match in their raw 8-bit form when convert-meta is off", "convert-meta off and a Latin-1 character that is the Meta twin of a bound key (ä, °, É ...)"),
 "C02-s8": ("C02", ["C02"], "internal/history/sources.go Accept keeps the accepted line as a trimmed copy", "a typed line beginning or ending with a blank (ASCII or U+00A0, U+3000 ...)"),
 "C12-s7": ("C12", ["C12"], "inputrc/parse.go decodeKey: named keys looked up in a map, the empty-name case moved before the modifier stripping, fallback []rune(val)[0]", "a key name made only of modifiers: Control-, Meta-Control-, C-M-"),
 "C12-s8": ("C12", ["C12"], "inputrc/parse.go $if: strings.SplitN(val, \"=\", 2) and test[1] without a length check", "$if mode / $if term without '='"),
 "C15-s7": ("C15", ["C15"], "internal/completion/group.go lastCell always walks back with findFirstCandidate(0,-1): on the empty cell of a partial last row it moves up a row instead of left", "a non-aliased grid of 2+ rows and columns whose last row is partial, cycled backward across the beginning"),
 "C15-s8": ("C15", ["C15"], "internal/completion/group.go initCompletionsGrid: the row count is computed before the one-column override of listed groups", "candidates displayed as a list (DisplayList) whose entries are short enough for two to fit on a row"),
 "C17-s7": ("C17", ["C17"], "vim.go viYankTo: yy calls vi-yank-whole-line (Y), which stores the line without its newline, while dd stores it with", "the doubled form yy"),
 "C17-s8": ("C17", ["C17"], "vim.go viDeleteTo: after dd a trailing newline left on the buffer is removed", "dd on the last line of a multi-line buffer, or in a buffer ending with a newline"),
 "C19-s7": ("C19", ["C19"], "inputrc/inputrc.go escape: Meta characters written in octal when IsControl(Demeta(c)) instead of !IsPrint: DEL is not a control character for IsControl", "the character U+00FF"),
 "C19-s8": ("C19", ["C19", "C13"], "inputrc/parse.go doBind: a 'nothing to bind' guard also drops macros with an empty body", "a macro with an empty body (\"\\C-a\": \"\"), dumped and parsed back (reached by C13: the bind is not recorded)"),
 # own mutants
 "m-C01b": ("C01", ["C01"], "internal/core/keys.go ReadKey: a read error only aborts the command when bytes were read with it (`err != nil && len(buf) > 0`): the loop spins on a failing terminal", 'an argument-reading command, then EOF/EIO at its argument read'),
 "m-C02": ("C02", ["C02"], "emacs.go selfInsert: a non-ASCII character is dropped when the buffer length is 15 mod 16", 'a non-ASCII character typed at buffer length 15, 31, ...'),
 "m-C02b": ("C02", ["C02"], "readline.go: the keys read but not used yet are dropped at the start of every call (type-ahead after the accept key lost)", "two lines typed in one write: what follows the first RET belongs to the next call"),
 "m-C03": ("C03", ["C03"], "internal/keymap/dispatch.go: an exact match is only run for sequences longer than one key", 'a one-key binding that is also a prefix of longer ones'),
 "m-C04": ("C04", ["C04"], "internal/strutil/len.go LineSpan: rows = (len-1)/width (same edit as C04-s1, made independently)", 'prompt + cursor columns an exact multiple of the width'),
 "m-C05": ("C05", ["C05"], "internal/core/keys.go MatchedPrefix: mustWait is not set for prefixes of 3+ bytes; the dispatcher re-matches instead of waiting for more input", 'a bound sequence of 4+ bytes cut by a read boundary after its third byte'),
 "m-C06": ("C06", ["C06"], "internal/core/cursor.go CheckCommand: the cursor is not pulled back on one-character buffers", 'vi command mode on a one-character buffer'),
 "m-C07": ("C07", ["C07"], "internal/history/undo.go Save: the cut of undone states keeps one of them (`pos > 1`, `+2`): a state undone and replaced by a new edit comes back on undo",
           "undo, a new edit, undo again"),
 "m-C08": ("C08", ["C08"], "internal/history/sources.go Write: duplicate test without TrimSpace; a padded duplicate of the newest entry is recorded", 'an accepted line equal to the newest entry up to surrounding blanks'),
 "m-C09": ("C09", ["C09"], "internal/history/sources.go Walk: walking past the newest entry of a history with more than 3 entries stays on the newest entry instead of the typed line", 'history of 4+ entries, up then down past the newest'),
 "m-C10": ("C10", ["C10"], "internal/history/file.go Write: the newline before an append after a torn tail is skipped when the torn record ends with a double quote", 'a torn last record cut right after a quote'),
 "m-C11": ("C11", ["C11"], "readline.go: the cursor style is not reset when the call ends in Vi command mode", 'any exit from vi-command mode'),
 "m-C12": ("C12", ["C12"], "inputrc/parse.go: the $include depth bound only applies outside conditional blocks", 'a cyclic include inside an $if block'),
 "m-C13": ("C13", ["C13"], "inputrc/parse.go doSet: set keymap applies inside inactive blocks (same idea as C13-s1, made independently)", 'set keymap in an inactive block followed by an active bind'),
 "m-C14": ("C14", ["C14"], "internal/completion/insert.go: one character too many is cut before candidates longer than 8 characters", 'a candidate longer than 8 characters completing a word that is not at the start of the line'),
 "m-C15": ("C15", ["C15"], "internal/completion/group.go moveSelector: the last but one column is skipped in grids wider than 3 columns", 'a candidate grid with 4+ columns'),
 "m-C16": ("C16", ["C16"], "emacs.go killRegion: leading blanks of the region are not written to the kill ring", 'kill-region on a region starting with a blank'),
 "m-C17": ("C17", ["C17"], "vim.go viDeleteTo: the inclusive/exclusive adjustment is skipped for vi-end-bigword: dE removes one character less than yE copies",
           "d E on a word with text after it"),
 "m-C18": ("C18", ["C18"], "internal/core/keys.go ReadKey: control characters read as argument keys are not recorded in macros", 'a macro with quoted-insert + a control key'),
 "m-C19": ("C19", ["C19"], "inputrc/inputrc.go Escape: sequences longer than two keys get a stray \\\\x7f", 'a bound sequence of 3+ keys dumped with dump-functions / dump-macros'),
 "m-C20": ("C20", ["C20"], "internal/core/keys.go MatchedPrefix: Keys.mutex no longer taken (a lock removed from the key reader)", 'a resize / Printf goroutine inside GetCursorPos while the dispatcher updates the key buffer; visible to the race detector only'),
 "m-C20b": ("C20", ["C20"], "internal/core/keys_unix.go GetCursorPos: the request counter is incremented without Keys.mutex (a lock removed around a shared counter)", "any asynchronous redisplay while the main loop reads the terminal; visible to the race detector only"),
}

results = {}
if len(sys.argv) > 1:
    for line in open(sys.argv[1]):
        m = re.match(r"(\S+)\s+(C\d\d)\s+(.*)", line)
        if not m:
            continue
        sid, chk, rest = m.groups()
        verdict = "CAUGHT" if rest.startswith("CAUGHT") else ("MISSED" if rest.startswith("MISSED") else "ERROR")
        sig = ""
        ms = re.search(r"sig=([^;]+?) count=", rest)
        if ms:
            sig = ms.group(1)
        results.setdefault(sid, {})[chk] = {"verdict": verdict, "first_signature": sig}

for sid, (prop, checks, change, needs) in sorted(T.items()):
    d = os.path.join(ROOT, sid)
    if not os.path.isdir(d):
        print("missing", sid)
        continue
    mp = os.path.join(d, "meta.json")
    old = json.load(open(mp)) if os.path.exists(mp) else {}
    files = sorted(f for f in os.listdir(d) if f not in ("meta.json",))
    meta = {
        "id": sid,
        "breaks_property": prop,
        "origin": OWN if sid.startswith("m-") else AGENT,
        "change": change,
        "needs_to_manifest": needs,
        "files": files,
        "checks": checks,
        "confirmed": ("patch applies to /repo HEAD; go build ./... and the pinned suite (go test -vet=off -count=1 ./...) pass with it; "
                      + ("the demonstration passes on the clean tree and fails with the patch (lib/seedverify.sh)" if not sid.startswith("m-") else "no separate demonstration: the check's replay file is the demonstration")),
        "ran": "lib/seedtest.sh /verif/seeded/%s/patch.diff <check>  (git -C /repo apply; ./check <check> quick; git -C /repo checkout -- .)" % sid,
        "result": results.get(sid, old.get("result", {})),
    }
    json.dump(meta, open(mp, "w"), indent=1, ensure_ascii=False)
    open(mp, "a").write("\n")
print("wrote", len(T), "meta files")

# the per-change table of DESIGN.md section 11
rows = []
for sid in sorted(os.listdir(ROOT)):
    mp = os.path.join(ROOT, sid, "meta.json")
    if not os.path.exists(mp):
        continue
    mt = json.load(open(mp))
    for chk in mt["checks"]:
        r = mt.get("result", {}).get(chk, {})
        esc = lambda t: t.replace("|", "\\|")
        rows.append("| %s | %s | %s | %s | `%s` |" % (sid, esc(mt["change"]), esc(mt["needs_to_manifest"]), chk + ": " + r.get("verdict", "not run"), esc(r.get("first_signature", ""))))
D = "/verif/DESIGN.md"
s = open(D).read()
b, e = "<!-- seeded-table-begin -->\n", "<!-- seeded-table-end -->"
if b in s and e in s:
    s = s[:s.index(b) + len(b)] + "| id | change | needs to manifest | result (quick tier) | first signature |\n|---|---|---|---|---|\n" + "\n".join(rows) + "\n" + s[s.index(e):]
    open(D, "w").write(s)
    print("DESIGN.md table:", len(rows), "rows")
