# Table consumed by mkmanifest.py
TCB = "Trusted: the harness' VT emulator and gated reader (validated by ./check SELF), the Linux pty line discipline, the Go runtime. Says nothing about inputs/schedules not driven; bounds are in DESIGN.md section 5."

check("C01", "exploration",
      "Crash / read-storm / deadlock / CPU-and-memory runaway detectors over thousands of PRNG-determined Readline sessions (every bound sequence of every keymap, hostile bytes, EOF/EIO injected at random prefixes; every second session is directed: operator x object x argument key, surround commands and every binding with its argument, on 27 shaped buffers at every cursor position; one session in three binds 1-6 registered commands - those without a default binding, or any - to probe keys and uses them with small, zero and negative arguments; application prompts on the right / tooltip / secondary / transient, history sources removed between two calls, merged and message-only completions, case-folding prefixes under completion-ignore-case). Held = none of the refuting events on the executions produced.",
      TCB, "runtime monitoring: crash/deadlock/spin detectors on real sessions with fault injection", "DESIGN.md 5 C01")

check("C02", "exploration",
      "Identity oracle (returned line == typed text, err == nil) over thousands of PRNG-determined printable strings from six rune classes, both modes, all meta settings for ASCII and the UTF-8 settings for non-ASCII, delivered whole / per rune / per byte / at random cuts, and as single writes of 1-3 KiB (longer than the library's read buffer).",
      TCB, "runtime monitoring: identity oracle on real Readline sessions", "DESIGN.md 5 C02")

check("C03", "exploration",
      "Reference-model monitor: probe commands bound to generated overlapping bind tables (incl. macros) in an emptied main keymap; the probe invocation log (which binding, at which delivered chunk) must equal an independent longest-match dispatcher on thousands of (table, input, chunking) triples; one table in four is put in place through the API after a first call dispatched keys with another table.",
      TCB + " Inputs whose expected behaviour the statement leaves open are skipped and counted.", "runtime monitoring: reference dispatcher vs probe-command invocation log", "DESIGN.md 5 C03")

check("C04", "exploration",
      "Independent layout oracle vs the emulator grid at every main input wait (prompt cells, wrapping incl. wide characters at the margin, one row per embedded newline, blank elsewhere, cursor cell, no remnants of earlier taller frames), judged under two ESC[K terminal models (violation only if wrong under both), over thousands of recall+edit sessions on 8-120 column terminals (histories with wrapped single lines next to short multi-line entries; cells left of continuation lines must be blank or a decoration glyph; one Emacs session in four shows application status hints of widths around the terminal width).",
      TCB + " Frames are classed by geometric cause (plain / tab / zero-width / wide-at-margin / exact-fill / wrapped multi-line / narrow prompt); known findings cover only the listed non-plain classes.", "runtime monitoring: terminal emulator + independent layout model", "DESIGN.md 5 C04")

check("C05", "exploration",
      "Differential oracle over delivery schedules of one byte script: base (one token per read) vs per byte, one read, random cut sets (thorough: all cut sets of scripts <= 8 bytes) and type-ahead coupled with the terminal's cursor-position reply (before / same write / after); mid-character schedules (every read ends inside a multi-byte character), scripts that record part of themselves as a macro and replay it; every schedule must return the same (line, err); a difference seen with type-ahead is first reduced to the equivalent plain schedule; a disagreement is localised to a single read boundary where possible.",
      TCB + " Scripts are well-formed keyboard input (valid UTF-8, complete sequences); in Vi modes the boundary directly after ESC is kept as in the base schedule.", "runtime monitoring: differential testing over controlled delivery schedules", "DESIGN.md 5 C05")

check("C10", "fault_enumeration",
      "Round trip of generated write sequences through a reopened file-backed history, and enumeration of crash points: the file cut at every byte offset of the last append (sampled for records > 4 KiB) must reopen without error with all completed entries, and an entry appended afterwards through the API - NewHistoryFromFile, or a Shell-bound source (History.AddFromFile) at every third point - must survive another reopen; at every fourth point a second source opened before the torn append writes the entry; every 100th case holds a record of 1-3 MiB.",
      "Crash model: process death during the single O_APPEND write leaves a byte prefix of the record (no power-loss / fsync claims). Real files on the sandbox file system.", "runtime monitoring: fault enumeration (every truncation offset) on the real history file code", "DESIGN.md 5 C10")

check("C12", "exploration",
      "Totality monitor: tens of thousands of mutated inputrc texts (truncations, byte flips, lone modifiers/directives, unterminated quotes, deep $if, 64 KiB-1 MiB lines, CR/LF/NUL mixes, random bytes) x options x include graphs (self, cycle, chain, diamond, missing, erroring, files including their own cycle twice) parsed in worker processes through ParseBytes, Parser.Parse, a handler without ReadFileFunc and the real NewShell(INPUTRC) start-up path; no panic, no fatal error (attributed by the driver), bounded ReadFile calls.",
      "A fatal runtime error kills the worker; the driver attributes it to the running case. Recursion bound is logical (ReadFile calls), not wall clock.", "runtime monitoring: crash/recursion monitors over mutated inputs in child processes", "DESIGN.md 5 C12")

check("C13", "exploration",
      "Reference evaluator over the generator's AST vs Config.Binds/Config.Vars after parsing the rendered text, for tens of thousands of generated programs under 8 (mode, term, app) settings each, one program in ten also through the NewShell start-up path (INPUTRC + options); the single known deviation (inner $if ignoring an inactive enclosing block, which a pinned test requires) is recognised exactly by a second evaluator and listed as a known finding.",
      "Reference semantics are the statement's (a directive is live iff every enclosing arm is live); key notation decoded from the generator's own choice of notation.", "runtime monitoring: reference evaluator (executable model) vs parsed configuration", "DESIGN.md 5 C13")

check("C19", "exploration",
      "Round-trip law Unescape(Escape(s)) == s / Unescape(EscapeMacro(s)) == s: exhaustive over every rune 0x00-0xFF and every pair, every default binding and macro, random sequences incl. Unicode; for each of them also the bind / macro line the dump commands would print (notation between double quotes) parsed back with the inputrc parser; plus sessions running dump-functions/-variables/-macros with a numeric argument on generated configurations, whose captured terminal output is parsed back and compared with the live configuration, one session in three a second time after binds were changed through the API.",
      TCB, "runtime monitoring: inverse-law oracle (exhaustive for length <= 2) + dump/re-parse sessions", "DESIGN.md 5 C19")

check("C06", "exploration",
      "Online invariants at every input wait (cursor within the buffer, on a character in Vi command mode, selection within the buffer), acceptance equality (returned line == buffer observed before a plain accept), and before/after text equality for 58 (command, keymap) pairs documented as pure movements/copies invoked by name with numeric arguments from history-recalled buffers, Vi history searches for whole entries, and for sequences of 2-4 copies into named registers (replace / append) on multi-line buffers.",
      TCB, "runtime monitoring: state invariants at hooked wait points + before/after equality", "DESIGN.md 5 C06")

check("C07", "exploration",
      "Monitors over the per-step buffer snapshots of one call: every buffer produced by undo was shown before; a tail of undos reaches the initial content; n effective undos + n redos restore the text; redo after a new edit changes nothing; a timeline order model (non-deterministic over repeated texts) demands that undo lands below and redo above the current state and that a new edit cuts the undone branch. One random case in four runs after earlier calls on the same Shell. Exhaustive over all operation sequences of length <= 4 (quick) / <= 5 (thorough) on an 11-operation Emacs alphabet plus random sequences up to 40 operations in Emacs and Vi (with history walks).",
      TCB, "runtime monitoring: trace checkers (membership, timeline order model, inverse laws) over snapshot sequences", "DESIGN.md 5 C07")

check("C08", "exploration",
      "Per-source before/after diff of 1-3 bound history sources (in-memory, file-backed, a Write-counting harness source) across 1-4 consecutive Readline calls with 7 accept variants, 5 history-size settings and blank/duplicate/padded/Unicode/multi-line lines: exactly one append of the trimmed line for ordinary accepts unless blank or duplicate of that source's newest entry, unchanged otherwise, limit honoured only from N entries on; a file-backed source is reloaded from disk after every call and must equal the open source, one in four starts with a torn last record, one source in twelve holds 499-1500 entries.",
      TCB, "runtime monitoring: conservation check (before/after diff, Write-call count) on bound history sources", "DESIGN.md 5 C08")

check("C09", "exploration",
      "Reference position model (also over 2-4 calls on one Shell with a history that grows by the accepted lines) vs the buffer at every wait for walks over previous/next/beginning/end-of-history and up/down-line-or-history (both ends, restoration of the in-progress text), membership oracles for prefix / substring / incremental searches (buffer in {typed text} U {entries matching the documented search text}), abort restores the text, and source contents unchanged, over 9 history shapes incl. empty, one-entry, duplicates, multi-line, metacharacters, Unicode.",
      TCB, "runtime monitoring: reference model + membership oracles at hooked wait points", "DESIGN.md 5 C09")

check("C11", "exploration",
      "Post-return monitors on 15 exit paths x 4 modes x 7 buffer shapes x 6 initial termios variants (incl. cbreak and raw-like), one case in three after an earlier call on the same Shell: TCGETS struct equality before/after, last DECSCUSR parameter reset to 0, emulator cursor in column 0 of a blank row below all text; also after a user-registered command panicked and the panic unwound through Readline.",
      TCB, "runtime monitoring: terminal-state monitors (termios, cursor cell, cursor style) after every exit path", "DESIGN.md 5 C11")

check("C14", "exploration",
      "Framing oracle at every wait after a menu key, anchored at the last wait without an active menu: buffer == L0[:word start] + offered value + L0[cursor:] (or unchanged), over buffers with multi-byte text, quotes and escaped blanks, cursors at the end / inside / before words, 1-8 candidates (plain, described, tagged, NoSpace, case variants, the word itself), ignore-case on/off and Tab / Shift-Tab / arrows / C-n / C-p / C-f (incremental search of candidates) / C-@ sequences, one case in three with a second completion round on the same Shell; accepting by typing keeps the candidate whole (minus a declared removable suffix); C-c in an active menu must restore (L0, cursor) and not end the call.",
      TCB, "runtime monitoring: framing equality against the pre-completion snapshot and the completer's own candidate list", "DESIGN.md 5 C14")

check("C15", "exploration",
      "Permutation-window and periodicity oracle on the sequence of words inserted by 2N+3 presses of menu-complete / menu-complete-backward, for N = 2..60 candidates in six layouts (plain, described, aliased, multi-tag, long, double-width) on terminals 20-160 x 6-40 incl. menus taller than the screen, with autocomplete on in one case in five.",
      TCB, "runtime monitoring: trace checker (period-N permutation windows) over the inserted-word sequence", "DESIGN.md 5 C15")

check("C16", "exploration",
      "Inverse-law oracle kill o yank: for 10 Emacs kill commands bound by name (and Vi x/P) from every cursor position of 15 history-recalled buffers with numeric arguments, multi-kill sequences (up to 15 kills in one call: more than the kill ring holds), Vi counts around the end of the cursor's line on multi-line buffers, regions with the point on either side of the mark, blink-matching-paren on in one case in four, the kill buffer must be exactly the removed text (L1[:i] + R + L1[i:] == L) and an immediate yank at that point must restore the buffer; after several kills yank gives the most recent.",
      TCB, "runtime monitoring: inverse-law oracle on before/after snapshots and the public kill-buffer getter", "DESIGN.md 5 C16")

check("C17", "exploration",
      "Differential oracle (blink-matching-paren sampled; one case in five after an operator started and cancelled) on pairs of sessions from an identical observed state: d<motion> vs y<motion> (and v<motion>d / v<motion>y) for 73 motions and text objects with counts: yank leaves the buffer unchanged, both registers are equal, and the deleted text re-inserted at one place gives back the original buffer.",
      TCB, "runtime monitoring: differential oracle (delete vs yank) over paired sessions", "DESIGN.md 5 C17")

check("C18", "exploration",
      "Differential oracle on pairs of sessions: the key script K typed twice vs K recorded and replayed (Emacs C-x ( ... C-x ) C-x e; Vi q<r> ... q @<r> over 10 registers), K = 1-12 tokens of text (ASCII and non-ASCII) with quotes/backslashes/escape look-alikes, control keys, ESC-prefixed keys, CSI keys, quoted-insert, digit arguments, Vi commands with counts and argument keys, operators with text objects and surround characters, named registers; one case in four with AcceptMultiline set and a refused Return inside K; one case in five after an empty recording on the same Shell; final buffer texts must be equal.",
      TCB + " In Vi scripts a key that would combine with a directly preceding ESC into a bound sequence is excluded (replay carries no timing; same exclusion as C05).", "runtime monitoring: differential oracle (retype vs record+replay) over paired sessions", "DESIGN.md 5 C18")

check("C20", "exploration",
      "Race-detector build. Each script runs undisturbed and then with SIGWINCH (real size changes, bursts of 2-20) and Shell.Printf from a second goroutine fired at logical trigger points: at an input wait of the main loop or of a command reading its argument key, and inside a redisplay (the emulator holds the main loop's cursor answer until the disturber has queried too, then answers in either order or in one write). Half of the cases have a clean schedule (single disturbances, each fired while the main loop is really parked in its terminal read and run to its end before the next keys, optionally with the next keys typed in the same write as the terminal's answer to the disturber); one case in sixteen resizes under a displayed completion list; findings are keyed by schedule class and known findings exist for overlapping schedules only. Oracles: no crash, no deadlock / stuck keystroke / resize or Printf goroutine blocked for good in its cursor query (logical criteria on goroutine dumps, gate counters and the tty queue), same (line, err) as the undisturbed run, consistent screen after the next redisplay, and no data race report with a library frame outside the calibrated known set.",
      TCB + " Which interleavings are realised is reported (evidence: trigger_points_realised, race_entry_pairs, race_functions_seen); a clean run says nothing about interleavings not realised.", "runtime monitoring: Go race detector + deadlock/stuck-keystroke detectors + differential vs undisturbed run under controlled disturbance schedules", "DESIGN.md 5 C20")

for _p in ["C03","C04","C05","C06","C07","C08","C09","C10","C11","C12","C13","C14","C15","C16","C17","C18","C19","C20"]:
    NOT_YET[_p] = "check under construction in this session (runtime monitor designed in DESIGN.md section 5, not yet registered)"
