#!/bin/bash
# usage: lib/seedverify.sh <agent worktree> <seed dir name> <seed id for /verif/seeded> <check IDs...>
# 1. in the agent's scratch worktree: patch applies, builds, repo tests pass; demo fails with / passes without
# 2. copies patch+demo+README to /verif/seeded/<id>/ ; 3. runs the given checks against /repo with the patch
set -u
WT="$1"; SD="$2"; SID="$3"; shift 3
GO=/root/go/pkg/mod/golang.org/toolchain@v0.0.1-go1.23.6.linux-amd64/bin/go
export GOFLAGS=-mod=mod GOPROXY=off GOTOOLCHAIN=local
cd "$WT" || exit 2
git checkout -q -- . ; git clean -fdq -e seed1 -e seed2 -e seed3 >/dev/null 2>&1
P="$WT/$SD/patch.diff"
[ -f "$P" ] || { echo "no patch in $WT/$SD"; exit 2; }
demos=$(find "$WT/$SD" -maxdepth 1 -type f \( -name '*_test.go' -o -name '*_test.go.txt' -o -name '*.go.txt' \) | sort)
[ -n "$demos" ] || demos=$(find "$WT/$SD" -type f \( -name '*_test.go' -o -name '*_test.go.txt' -o -name '*.go.txt' \) | sort | head -1)
demo=$(echo "$demos" | head -1)
[ -n "$demo" ] || { echo "no demo file found"; ls -R "$WT/$SD"; exit 2; }
destof() { local pkg; pkg=$(grep -m1 '^package ' "$1" | awk '{print $2}'); case "$pkg" in
  readline|readline_test) echo . ;; inputrc|inputrc_test) echo inputrc ;; main) echo MAIN ;; *) echo internal/${pkg%_test} ;; esac; }
dest=$(destof "$demo")
[ "$dest" = MAIN ] && { echo "demo is a main program: verify by hand ($demo)"; exit 3; }
[ -d "$dest" ] || { echo "cannot map package of $demo"; exit 3; }
tname() { local n; n=$(basename "$1" .txt); case "$n" in *_test.go) ;; *) n="${n%.go}_test.go";; esac; echo "zz_seed_$n"; }
tag=$(grep -m1 '^//go:build ' "$demo" | tr ' &|()!' '\n' | grep -v -x -e '//go:build' -e linux -e unix -e '' | head -1)
TAGS=""; [ -n "$tag" ] && TAGS="-tags $tag"
dests=""; for d in $demos; do dd=$(destof "$d"); case " $dests " in *" ./$dd/ "*) ;; *) dests="$dests ./$dd/";; esac; done
run() { timeout 300 $GO test $TAGS -vet=off -count=1 $dests 2>&1 | tail -15; return ${PIPESTATUS[0]}; }
copied=""; for d in $demos; do dd=$(destof "$d"); cp "$d" "$dd/$(tname "$d")"; copied="$copied $dd/$(tname "$d")"; done
run >/tmp/sv_clean.txt; rc_clean=$?
git apply "$P" || { echo "patch does not apply"; rm -f $copied; exit 2; }
run >/tmp/sv_patched.txt; rc_patched=$?
rm -f $copied
$GO build $($GO list ./... 2>/dev/null | grep -v "/seed[0-9]*$") >/tmp/sv_build.txt 2>&1; rc_build=$?
timeout 600 $GO test -vet=off -count=1 $($GO list ./... 2>/dev/null | grep -v "/seed[0-9]*$") >/tmp/sv_suite.txt 2>&1; rc_suite=$?
git checkout -q -- .
echo "demo: clean rc=$rc_clean patched rc=$rc_patched | build rc=$rc_build suite rc=$rc_suite"
if [ $rc_clean -ne 0 ] || [ $rc_patched -eq 0 ] || [ $rc_build -ne 0 ] || [ $rc_suite -ne 0 ]; then echo "SEED NOT CONFIRMED"; tail -n 5 /tmp/sv_clean.txt /tmp/sv_patched.txt /tmp/sv_suite.txt | cut -c1-200; exit 4; fi
mkdir -p /verif/seeded/$SID; cp "$P" /verif/seeded/$SID/patch.diff; for d in $demos; do cp "$d" /verif/seeded/$SID/; done; [ -f "$WT/$SD/README.txt" ] && cp "$WT/$SD/README.txt" /verif/seeded/$SID/README.txt
tail -3 /tmp/sv_patched.txt | cut -c1-200 > /verif/seeded/$SID/demo_output_with_patch.txt
echo "SEED CONFIRMED -> /verif/seeded/$SID (demo package ./$dest/)"
for ID in "$@"; do /verif/lib/seedns.sh /verif/seeded/$SID/patch.diff $ID | cut -c1-260; done
