#!/usr/bin/env python3
"""Regenerates /verif/MANIFEST.json from the table below (single source of truth)."""
import json, subprocess, os

ROOT = os.path.dirname(os.path.dirname(os.path.abspath(__file__)))

def repo_commits():
    out = subprocess.run(["git", "-C", "/repo", "log", "--format=%h %s"], capture_output=True, text=True).stdout
    hooks, fixes = [], []
    for l in out.splitlines():
        h, s = l.split(" ", 1)
        if s.startswith("verif:"):
            hooks.append(h)
        if s.startswith("fix:"):
            fixes.append(h)
    return hooks, fixes

# id -> (claimed, level category, level text, level note, technique, design ref)
CHECKS = {}

def check(pid, cat, text, note, technique, ref):
    CHECKS[pid] = dict(cat=cat, text=text, note=note, technique=technique, ref=ref)

NOT_YET = {}

exec(open(os.path.join(ROOT, "lib", "manifest_table.py")).read())

for _k in CHECKS:
    NOT_YET.pop(_k, None)
hooks, fixes = repo_commits()
m = {
    "version": 1,
    "setup_cmd": "./lib/setup.sh",
    "hooks": {
        "guard": "verif",
        "enable": "go build -tags verif (harness module /verif/harness with `replace github.com/reeflective/readline => /repo`); see ./check",
        "baseline_off_cmd": "./lib/baseline.sh",
        "source_commits": hooks,
        "add_only": True,
    },
    "engines": [
        {"name": "verifx", "path": "harness/cmd/verifx", "serves_properties": sorted(CHECKS),
         "kind_free_text": "Go harness: real Shell.Readline against an in-process pty + VT emulator (two erase models), gated input reader giving exact wait points, per-property online/offline monitors, worker processes with crash attribution; -race build for schedule properties"},
    ],
    "checks": [],
    "not_applicable": [{"property_id": k, "reason": v} for k, v in sorted(NOT_YET.items())],
    "notes": "All checks are runtime monitors over executions of the real code built from /repo's working tree. known_findings.txt lists repaired defects (fix: commits " + ", ".join(fixes) + ") and recorded findings. Replay: ./check <ID> replay <path>.",
}
for pid in sorted(CHECKS):
    c = CHECKS[pid]
    m["checks"].append({
        "property_id": pid,
        "quick_cmd": f"./check {pid} quick",
        "thorough_cmd": f"./check {pid} thorough",
        "evidence_file": f"/verif/evidence/{pid}.json",
        "replay_cmd_template": f"./check {pid} replay {{path}}",
        "engine": "verifx",
        "level_claimed": {"category": c["cat"], "text": c["text"], "design_ref": c["ref"]},
        "level_note": c["note"],
        "technique": c["technique"],
    })
json.dump(m, open(os.path.join(ROOT, "MANIFEST.json"), "w"), indent=1)
print("MANIFEST.json:", len(m["checks"]), "checks,", len(m["not_applicable"]), "not_applicable")
