#!/bin/bash
# Builds the harness from files on disk only (offline).
set -e
ROOT="$(cd "$(dirname "$0")/.." && pwd)"
. "$ROOT/lib/env.sh"
mkdir -p "$ROOT/.bin" "$ROOT/evidence"
cp /repo/go.sum "$ROOT/harness/go.sum"
cd "$ROOT/harness"
"$GO" build -tags verif -o "$ROOT/.bin/verifx" ./cmd/verifx
"$GO" build -tags verif -race -o "$ROOT/.bin/verifx-race" ./cmd/verifx
"$ROOT/.bin/verifx" drive SELF quick >/dev/null || { echo "emulator self-validation failed"; exit 1; }
echo "setup ok: $("$GO" version)"
