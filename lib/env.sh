# Sanitised, offline Go environment for every check. The repository pins go 1.23.6; the cached
# toolchain binary is used directly so that no toolchain switch (which needs the checksum
# database) is ever attempted. Fallbacks: the system go with auto-switch, then go1.26.8.
unset GOSUMDB GONOSUMDB GONOSUMCHECK GOFLAGS GOTOOLCHAIN GOWORK
export GOFLAGS=-mod=mod GOPROXY=off GOTOOLCHAIN=local GONOSUMDB='*' GONOSUMCHECK=1 GOFLAGS=-mod=mod
export GOSUMDB=off
GO=""
for cand in "$(go env GOMODCACHE 2>/dev/null)/golang.org/toolchain@v0.0.1-go1.23.6.linux-amd64/bin/go" /root/go/pkg/mod/golang.org/toolchain@v0.0.1-go1.23.6.linux-amd64/bin/go; do
  if [ -x "$cand" ]; then GO="$cand"; break; fi
done
if [ -z "$GO" ]; then
  if command -v go1.26.8 >/dev/null 2>&1; then GO="$(command -v go1.26.8)"; else GO="$(command -v go)"; fi
fi
export GO
export GOCACHE="${GOCACHE:-$HOME/.cache/go-build}"
