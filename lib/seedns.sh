#!/bin/bash
# usage: lib/seedns.sh <patch.diff|-> <ID> [ID...]
# Like lib/seedtest.sh, but never touches /repo or /verif's own build output: a copy of /repo's working tree
# (with the patch applied, "-" = no patch) is bind-mounted over /repo inside a private mount namespace, with
# private .bin/.work/evidence/replays directories, and the quick tier (TIER=thorough for the other) of each
# check runs there. Several of these can run side by side with checks on the real /repo.
# Replay files of the last run are kept in /verif/.seedns/<name>/replays for inspection.
set -u
PATCH="$1"; shift
NAME=${SEEDNS_NAME:-$(basename "$(dirname "$PATCH")")}; [ "$PATCH" = "-" ] && NAME=${SEEDNS_NAME:-clean}
D=$(mktemp -d /var/tmp/seedns.XXXXXX)
KEEP=/verif/.seedns/$NAME; rm -rf "$KEEP"; mkdir -p "$KEEP"
trap 'rm -rf "$D"' EXIT
mkdir -p "$D/repo" "$D/bin" "$D/work" "$D/evidence" "$D/replays"
rsync -a --exclude .git /repo/ "$D/repo/"
if [ "$PATCH" != "-" ]; then ( cd "$D/repo" && git apply "$PATCH" ) || { echo "patch does not apply"; exit 2; }; fi
cp -r /verif/evidence/. "$D/evidence/" 2>/dev/null
mkdir -p /verif/.bin /verif/.work /verif/replays
for ID in "$@"; do
  out=$(unshare -m bash -c "mount --bind $D/repo /repo && mount --bind $D/bin /verif/.bin && mount --bind $D/work /verif/.work && mount --bind $D/evidence /verif/evidence && mount --bind $D/replays /verif/replays && cd /verif && VERIF_SEED=${VERIF_SEED:-1} ./check $ID ${TIER:-quick}" 2>&1)
  rc=$?
  echo "$out" > "$KEEP/$ID.out"
  v=$(echo "$out" | grep -m1 "^VIOLATION" | cut -c1-160)
  s=$(echo "$out" | grep -m3 "^  sig=" | cut -c1-200 | tr '\n' ';')
  last=$(echo "$out" | tail -1 | cut -c1-200)
  if [ $rc -eq 1 ] && [ -n "$v" ]; then echo "CAUGHT $ID rc=$rc $s"; else echo "MISSED $ID rc=$rc :: $last"; fi
done
cp -r "$D/replays" "$KEEP/" 2>/dev/null
