#!/usr/bin/env python3
# usage: showreplay.py <replay.json> [nwaits]  -- runs the replay and prints the last waits + finding
import json,sys,subprocess
f=sys.argv[1]; n=int(sys.argv[2]) if len(sys.argv)>2 else 6
r=json.load(open(f))
c=r['case']
print('SIG',r['sig'])
print('CASE',{k:v for k,v in c.items() if k not in('plan',)})
if 'plan' in c: print('PLAN',[s.get('w',s) for s in c['plan']])
t=subprocess.run(['/verif/check',r['property'],'replay',f],capture_output=True,text=True).stdout
try:
    j=json.loads(t[:t.rindex('\n}')+2])
except Exception as e:
    print(t[-3000:]); sys.exit()
tr=j.get('trace') or {}
for w in (tr.get('Waits') or [])[-n:]:
    print(' wait',w['Idx'],w['Kind'],'step',w['Step'],repr(w['Line']),'pos',w['Pos'],w['Main'],w['Local'],w['Cmd'])
for fd in j.get('findings',[]): print('FINDING',fd['sig'],'\n',fd['detail'][:1500])
