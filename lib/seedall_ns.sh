#!/bin/bash
# usage: lib/seedall_ns.sh [seed ids...]   -- like lib/seedall.sh, but through lib/seedns.sh (private copy of /repo
# in a mount namespace), so /repo is never modified and other checks can run meanwhile.
cd /verif
ids="$@"; [ -n "$ids" ] || ids=$(cd seeded && ls -d */ | tr -d / | grep -v "^equivalent")
for sid in $ids; do
  d=seeded/$sid
  checks=$(python3 -c "import json,sys;print(' '.join(json.load(open('$d/meta.json'))['checks']))" 2>/dev/null)
  [ -n "$checks" ] || checks=$(echo $sid | sed -E 's/^m-//; s/-s[0-9]+$//; s/[ab]$//')
  for c in $checks; do
    printf "%-8s %-4s " $sid $c
    lib/seedns.sh /verif/$d/patch.diff $c 2>&1 | tail -1 | cut -c1-200
  done
done
