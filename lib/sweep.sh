#!/bin/bash
# usage: lib/sweep.sh <seed...>  -- every quick check at each seed on /repo's working tree; prints the summary
# line of each run and every VIOLATION / BROKEN line. The last seed's evidence files stay in evidence/.
cd /verif
[ -z "$(git -C /repo status --porcelain)" ] || { echo "/repo is not clean"; exit 2; }
for sd in "$@"; do
  for id in C01 C02 C03 C04 C05 C06 C07 C08 C09 C10 C11 C12 C13 C14 C15 C16 C17 C18 C19 C20; do
    out=$(VERIF_SEED=$sd ./check $id quick 2>&1); rc=$?
    echo "rc=$rc $(echo "$out" | tail -1 | cut -c1-200)"
    echo "$out" | grep "^VIOLATION\|^BROKEN\|^  sig=" | cut -c1-250
  done
done
echo FINISHED
