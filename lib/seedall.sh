#!/bin/bash
# usage: lib/seedall.sh [seed ids...]   (default: every directory of /verif/seeded)
# Applies each kept change to /repo in turn, runs the quick tier of the checks named in its meta.json
# ("checks"), reverts, and prints one line per (seed, check). /repo must be clean.
cd /verif
[ -z "$(git -C /repo status --porcelain)" ] || { echo "/repo is not clean"; exit 2; }
ids="$@"; [ -n "$ids" ] || ids=$(cd seeded && ls -d */ | tr -d / | grep -v "^equivalent")
for sid in $ids; do
  d=seeded/$sid
  checks=$(python3 -c "import json,sys;print(' '.join(json.load(open('$d/meta.json'))['checks']))" 2>/dev/null)
  [ -n "$checks" ] || checks=$(echo $sid | sed -E 's/^m-//; s/-s[0-9]+$//; s/[ab]$//')
  for c in $checks; do
    printf "%-8s %-4s " $sid $c
    lib/seedtest.sh /verif/$d/patch.diff $c 2>&1 | tail -1 | cut -c1-200
  done
done
