#!/bin/bash
# usage: lib/dbg.sh '<case json>'   (ad-hoc session; prints waits and screens)
f=$(mktemp /verif/.work/dbg.XXXXXX.json)
echo "{\"property\":\"DBG\",\"tier\":\"quick\",\"seed\":1,\"idx\":0,\"case\":$1}" > $f
/verif/check DBG replay $f | python3 -c "
import json,sys
t=sys.stdin.read()
try:
  j=json.loads(t[:t.rindex('\n}')+2])
  for l in j['trace']: print(l)
except Exception as e: print(t)
"
rm -f $f
