// Package sess runs the real Shell.Readline loop against an in-process pseudo terminal and
// exposes exact "the library is now waiting for input" points through a gated reader.
package sess

import (
	"fmt"
	"os"
	"regexp"
	"sync"
	"sync/atomic"
	"syscall"
	"time"
	"unsafe"

	"golang.org/x/sys/unix"

	"verif/vt"
)

// Term is the hermetic terminal: a pty whose slave is fds 0/1/2 of this process and whose master
// is read by an emulator pump feeding two screen models (xterm and VTE erase rules).
type Term struct {
	M, S *os.File
	W, H int

	mu   sync.Mutex // guards VT, Raw, dsr state
	VT   [2]*vt.VT
	Raw  []byte
	Keep bool // keep raw output

	syncC  chan int
	syncID int64

	// DSRHook, if set, is called (pump goroutine, t.mu held) for the n-th cursor query of the
	// session; it returns true if it takes care of the answer itself.
	DSRHook func(n int, reply []byte) bool
	DSRs    int

	OrigErr *os.File // the process' original stderr
}

// OpenPTY opens a fresh pty pair.
func OpenPTY() (*os.File, *os.File, error) {
	m, err := os.OpenFile("/dev/ptmx", os.O_RDWR|syscall.O_NOCTTY, 0)
	if err != nil {
		return nil, nil, err
	}
	var unlock int32
	if _, _, e := syscall.Syscall(syscall.SYS_IOCTL, m.Fd(), syscall.TIOCSPTLCK, uintptr(unsafe.Pointer(&unlock))); e != 0 {
		return nil, nil, e
	}
	var n uint32
	if _, _, e := syscall.Syscall(syscall.SYS_IOCTL, m.Fd(), syscall.TIOCGPTN, uintptr(unsafe.Pointer(&n))); e != 0 {
		return nil, nil, e
	}
	s, err := os.OpenFile(fmt.Sprintf("/dev/pts/%d", n), os.O_RDWR|syscall.O_NOCTTY, 0)
	return m, s, err
}

// Setup redirects fds 0, 1 and 2 to a fresh pty and starts the emulator pump. Once per process.
func Setup(w, h int) (*Term, error) {
	m, s, err := OpenPTY()
	if err != nil {
		return nil, err
	}
	t := &Term{M: m, S: s, syncC: make(chan int, 64)}
	if fd, err := unix.Dup(2); err == nil {
		t.OrigErr = os.NewFile(uintptr(fd), "origstderr")
	}
	t.newScreens(w, h)
	t.setWinsize(w, h)
	for _, fd := range []int{0, 1, 2} {
		if err := unix.Dup2(int(s.Fd()), fd); err != nil {
			return nil, err
		}
	}
	go t.pump()
	return t, nil
}

func (t *Term) newScreens(w, h int) {
	t.W, t.H = w, h
	for i := range t.VT {
		v := vt.New(w, h, vt.ELRule(i))
		v.OnSync = nil
		v.OnDSR = nil
		t.VT[i] = v
	}
	t.VT[0].OnSync = func(id int) {
		select {
		case t.syncC <- id:
		default:
		}
	}
	t.VT[0].OnDSR = func(row, col int) {
		t.DSRs++
		reply := []byte(fmt.Sprintf("\x1b[%d;%dR", row, col))
		if t.DSRHook != nil && t.DSRHook(t.DSRs, reply) {
			return
		}
		t.M.Write(reply)
	}
}

func (t *Term) pump() {
	buf := make([]byte, 65536)
	for {
		n, err := t.M.Read(buf)
		if n > 0 {
			t.mu.Lock()
			if t.Keep {
				t.Raw = append(t.Raw, buf[:n]...)
			}
			t.VT[0].Write(buf[:n])
			t.VT[1].Write(buf[:n])
			t.mu.Unlock()
		}
		if err != nil {
			return
		}
	}
}

func (t *Term) setWinsize(w, h int) {
	ws := &unix.Winsize{Row: uint16(h), Col: uint16(w)}
	unix.IoctlSetWinsize(int(t.M.Fd()), unix.TIOCSWINSZ, ws)
}

// Reset gives the session a blank terminal of the given size (no signal is sent).
func (t *Term) Reset(w, h int) {
	t.mu.Lock()
	t.newScreens(w, h)
	t.Raw = t.Raw[:0]
	t.DSRs = 0
	t.DSRHook = nil
	t.mu.Unlock()
	t.setWinsize(w, h)
	// drain stale sync ids
	for {
		select {
		case <-t.syncC:
			continue
		default:
		}
		break
	}
}

// Resize changes the terminal size like a real terminal does: the kernel winsize changes, the
// screens are resized without reflow, and (signal) SIGWINCH is delivered to this process.
func (t *Term) Resize(w, h int, signal bool) {
	t.mu.Lock()
	t.W, t.H = w, h
	t.VT[0].Resize(w, h)
	t.VT[1].Resize(w, h)
	t.mu.Unlock()
	// TIOCSWINSZ on a pty master sends SIGWINCH to the foreground process group of the slave
	// only if it is a controlling terminal; it is not, so the signal is sent explicitly.
	t.setWinsize(w, h)
	if signal {
		syscall.Kill(os.Getpid(), syscall.SIGWINCH)
	}
}

// Sync makes sure that everything written to the terminal so far has been interpreted by the
// emulator: it emits an OSC sentinel on stdout and waits until the pump has consumed it.
// The wall-clock limit is only plumbing; its expiry is reported as an error (inconclusive).
func (t *Term) Sync() error {
	id := int(atomic.AddInt64(&t.syncID, 1))
	fmt.Fprintf(os.Stdout, "\x1b]777;sync;%d\x07", id)
	deadline := time.NewTimer(20 * time.Second)
	defer deadline.Stop()
	for {
		select {
		case got := <-t.syncC:
			if got == id {
				return nil
			}
		case <-deadline.C:
			return fmt.Errorf("sync timeout")
		}
	}
}

// Termios reads the terminal attributes of the slave.
func (t *Term) Termios() unix.Termios {
	tio, err := unix.IoctlGetTermios(int(t.S.Fd()), unix.TCGETS)
	if err != nil {
		return unix.Termios{}
	}
	return *tio
}

// SetTermios sets the terminal attributes of the slave.
func (t *Term) SetTermios(tio *unix.Termios) error {
	return unix.IoctlSetTermios(int(t.S.Fd()), unix.TCSETS, tio)
}

// Pending is the number of bytes waiting in the slave's input queue.
func (t *Term) Pending() int {
	n, err := unix.IoctlGetInt(0, unix.TIOCINQ)
	if err != nil {
		return 0
	}
	return n
}

// Lock gives access to the screens.
func (t *Term) Lock()   { t.mu.Lock() }
func (t *Term) Unlock() { t.mu.Unlock() }

var rxCPR = regexp.MustCompile(`\x1b\[[0-9]+;[0-9]+R`)
