package sess

import (
	"errors"
	"fmt"
	"io"
	"os"
	"path/filepath"
	"runtime"
	"strings"
	"sync"
	"syscall"
	"time"

	"github.com/reeflective/readline"
	"golang.org/x/sys/unix"

	"verif/vt"
)

// Step is one element of a delivery plan. Exactly one step is taken each time the library is
// found waiting for terminal input with nothing outstanding.
type Step struct {
	W   string `json:"w,omitempty"`   // bytes to type (Go string holding raw bytes)
	EOF bool   `json:"eof,omitempty"` // from now on every read returns io.EOF
	EIO bool   `json:"eio,omitempty"` // from now on every read fails with EIO
	Do  string `json:"do,omitempty"`  // named action (session Actions), performed before W is written
	Arg string `json:"arg,omitempty"`
	Tag string `json:"tag,omitempty"` // free label used by monitors (which token this is)
}

// Snap is the state observed, on the Readline goroutine itself, when the library asks for input.
type Snap struct {
	Idx    int
	Kind   string // "main" | "arg"
	Step   int    // index of the step about to be taken (plan, then exit steps, then ladder)
	Line   string
	Pos    int
	SelAct bool
	SelB   int
	SelE   int
	Main   string
	Local  string
	Cmd    string
	Kill   string
	Hint   string
	// screen (only when Config.Screen)
	Base   int
	CurRow int // relative to Base
	CurCol int
	Pend   bool
	Style  string
	Top    int
	Grid   [2][][]vt.Cell // rows from Base to the end of what exists
	Unk    int
}

// Config describes one Shell under test.
type Config struct {
	Mode     string // "emacs" | "vi"
	Inputrc  string
	W, H     int
	Prompt   string
	NoPrompt bool
	Hist     []string
	Screen   bool
	KeepRaw  bool
	Env      map[string]string
	Setup    func(s *Session)
	OnWait   func(s *Session, sn *Snap)
	Actions  map[string]func(s *Session, arg string)
	NoLadder bool
	MaxWaits int
}

// Result is what one Readline call produced.
type Result struct {
	Line      string
	Err       string
	ErrEOF    bool
	ErrIntr   bool
	Returned  bool
	Panic     string
	Stack     string
	Storm     bool
	Abandoned bool
	Hung      bool
	Deadlock  bool
	CPUSpin   bool
	MemBlowup bool
	Stuck     bool
	Dump      string
	SyncErr   bool
	Waits     []Snap
	Reads     []string
	StepsDone int
	PlanDone  bool
	TioBefore unix.Termios
	TioAfter  unix.Termios
	Base      int
	EndRow    int
	EndCol    int
	EndStyle  string
	EndScreen [2][]string
	EndGrid   [2][][]vt.Cell
	Unknown   []string
	CPUms     int64
}

// Session is one Shell plus the gate state of the call in progress.
type Session struct {
	T   *Term
	Sh  *readline.Shell
	Cfg Config
	Dir string

	mu          sync.Mutex
	active      bool
	plan        []Step
	exit        []Step
	ladder      []Step
	next        int
	outstanding int
	fault       error
	faultReads  int
	waits       []Snap
	reads       []string
	base        int
	gid         string
	hold        bool // the gate delivers no step: a helper goroutine will (Hold/Release)
	abort       string
	syncErr     bool
	progress    int
	inRead      bool
}

type gateAbort struct{ why string }

// Gate is installed once per process on the library's key input stream.
type Gate struct {
	inner io.ReadCloser
	mu    sync.Mutex
	cur   *Session
}

var theGate = &Gate{}

// InstallGate wraps the library's input stream; call once.
func InstallGate() {
	readline.VerifWrapStdin(func(in io.ReadCloser) io.ReadCloser {
		theGate.inner = in
		return theGate
	})
}

func (g *Gate) Close() error { return nil }

func (g *Gate) Read(p []byte) (int, error) {
	g.mu.Lock()
	s := g.cur
	g.mu.Unlock()
	if s == nil {
		return g.inner.Read(p)
	}
	return s.gateRead(g.inner, p)
}

var scratchSeq int

// New builds a Shell in a pinned environment.
func New(t *Term, scratch string, cfg Config) *Session {
	if cfg.W == 0 {
		cfg.W, cfg.H = 80, 24
	}
	if cfg.Prompt == "" && !cfg.NoPrompt {
		cfg.Prompt = "> "
	}
	scratchSeq++
	dir := filepath.Join(scratch, fmt.Sprintf("s%d", scratchSeq))
	os.MkdirAll(dir, 0o755)
	rc := cfg.Inputrc
	if cfg.Mode == "vi" {
		rc = "set editing-mode vi\n" + rc
	}
	rcPath := filepath.Join(dir, "inputrc")
	os.WriteFile(rcPath, []byte(rc), 0o644)
	os.Setenv("INPUTRC", rcPath)
	os.Setenv("TERM", "xterm")
	os.Setenv("HOME", dir)
	os.Setenv("EDITOR", "/nonexistent-editor")
	os.Setenv("VISUAL", "/nonexistent-editor")
	for k, v := range cfg.Env {
		os.Setenv(k, v)
	}
	t.Reset(cfg.W, cfg.H)
	t.Keep = cfg.KeepRaw
	s := &Session{T: t, Cfg: cfg, Dir: dir}
	s.Sh = readline.NewShell()
	if !cfg.NoPrompt {
		p := cfg.Prompt
		s.Sh.Prompt.Primary(func() string { return p })
	}
	for _, l := range cfg.Hist {
		s.Sh.History.Current().Write(l)
	}
	if cfg.Setup != nil {
		cfg.Setup(s)
	}
	return s
}

// Close removes the session's scratch directory.
func (s *Session) Close() { os.RemoveAll(s.Dir) }

func (s *Session) isReadlineGoroutine() (kind string, onMain bool) {
	pcs := make([]uintptr, 48)
	n := runtime.Callers(3, pcs)
	fr := runtime.CallersFrames(pcs[:n])
	kind = "main"
	for {
		f, more := fr.Next()
		if strings.HasSuffix(f.Function, "core.(*Keys).ReadKey") {
			kind = "arg"
		}
		if strings.HasSuffix(f.Function, "(*Shell).Readline") {
			onMain = true
		}
		if !more {
			break
		}
	}
	return
}

// MaxFaultReads is the logical bound after which repeated failing reads are a read storm.
const MaxFaultReads = 200000

func (s *Session) gateRead(inner io.ReadCloser, p []byte) (int, error) {
	s.mu.Lock()
	s.progress++
	s.mu.Unlock()
	kind, onMain := s.isReadlineGoroutine()
	if !onMain {
		// Not the Readline goroutine (never the case for the library's own readers).
		return inner.Read(p)
	}
	s.mu.Lock()
	if s.abort != "" {
		why := s.abort
		s.mu.Unlock()
		panic(gateAbort{why})
	}
	if s.fault != nil {
		s.faultReads++
		n := s.faultReads
		err := s.fault
		s.mu.Unlock()
		if n > MaxFaultReads {
			panic(gateAbort{"storm"})
		}
		return 0, err
	}
	need := false
	if s.outstanding > 0 && s.T.Pending() == 0 {
		// The bytes were sent but are neither here nor counted: in flight, or consumed by the
		// library's direct reads of the terminal (cursor position query). Plumbing wait only.
		s.mu.Unlock()
		for i := 0; i < 40 && s.T.Pending() == 0; i++ {
			time.Sleep(500 * time.Microsecond)
		}
		s.mu.Lock()
		if s.T.Pending() == 0 {
			s.outstanding = 0
		}
	}
	if s.outstanding == 0 && s.T.Pending() == 0 && !s.hold {
		need = true
	}
	s.mu.Unlock()

	if need {
		if err := s.T.Sync(); err != nil {
			s.syncErr = true
		}
		sn := s.snapshot(kind)
		s.waits = append(s.waits, sn)
		if s.Cfg.OnWait != nil {
			s.Cfg.OnWait(s, &s.waits[len(s.waits)-1])
		}
		if s.Cfg.MaxWaits > 0 && len(s.waits) > s.Cfg.MaxWaits {
			panic(gateAbort{"maxwaits"})
		}
		st, ok := s.nextStep()
		if !ok {
			panic(gateAbort{"abandon"})
		}
		if st.Do != "" {
			if f := s.Cfg.Actions[st.Do]; f != nil {
				f(s, st.Arg)
			}
		}
		switch {
		case st.EOF:
			s.mu.Lock()
			s.fault = io.EOF
			s.faultReads = 1
			s.mu.Unlock()
			return 0, io.EOF
		case st.EIO:
			s.mu.Lock()
			s.fault = syscall.EIO
			s.faultReads = 1
			s.mu.Unlock()
			return 0, syscall.EIO
		case len(st.W) > 0:
			s.mu.Lock()
			s.outstanding += len(st.W)
			s.mu.Unlock()
			s.T.M.Write([]byte(st.W))
		}
	}
	s.mu.Lock()
	s.inRead = true
	s.mu.Unlock()
	n, err := inner.Read(p)
	s.mu.Lock()
	s.inRead = false
	s.progress++
	s.mu.Unlock()
	if n > 0 {
		user := rxCPR.ReplaceAll(p[:n], nil)
		s.mu.Lock()
		s.reads = append(s.reads, string(p[:n]))
		s.outstanding -= len(user)
		if s.outstanding < 0 {
			s.outstanding = 0
		}
		s.mu.Unlock()
	}
	return n, err
}

// nextStep returns the next plan / exit / ladder step.
func (s *Session) nextStep() (Step, bool) {
	i := s.next
	s.next++
	if i < len(s.plan) {
		return s.plan[i], true
	}
	i -= len(s.plan)
	if i < len(s.exit) {
		return s.exit[i], true
	}
	i -= len(s.exit)
	if i < len(s.ladder) {
		return s.ladder[i], true
	}
	return Step{}, false
}

func (s *Session) snapshot(kind string) Snap {
	sh := s.Sh
	sn := Snap{Idx: len(s.waits), Kind: kind, Step: s.next}
	sn.Line = string(*sh.Line())
	sn.Pos = sh.Cursor().Pos()
	sn.SelAct = sh.Selection().Active()
	if sn.SelAct {
		sn.SelB, sn.SelE = sh.Selection().Pos()
	}
	sn.Main = string(sh.Keymap.Main())
	sn.Local = string(sh.Keymap.Local())
	sn.Cmd = sh.Keymap.ActiveCommand().Action
	sn.Kill = string(sh.Buffers.GetKill())
	sn.Hint = sh.Hint.Text()
	if s.Cfg.Screen {
		t := s.T
		t.Lock()
		r, c, pend := t.VT[0].Cursor()
		sn.Base = s.base
		sn.CurRow, sn.CurCol, sn.Pend = r-s.base, c, pend
		sn.Style = t.VT[0].Style
		sn.Top = t.VT[0].Top()
		for i := range t.VT {
			sn.Grid[i] = t.VT[i].Grid(s.base, t.VT[i].NRows())
		}
		sn.Unk = len(t.VT[0].Unknown)
		t.Unlock()
	}
	return sn
}

// DefaultLadder is the fixed sequence of keys tried when a call keeps waiting after its exit action.
var DefaultLadder = []Step{{W: "\x1b"}, {W: "\x07"}, {W: "\x03"}, {W: "\r"}, {W: "\x03"}, {W: "\r"}}

// SessionWall is the wall-clock watchdog per call: plumbing only, its expiry alone is inconclusive.
var SessionWall = 30 * time.Second

// CPULimit is the CPU time one call may consume before it is called a spin.
var CPULimit = 10 * time.Second

// MemLimit is the live heap one call may reach before it is called a runaway allocation
// (inputs are at most a few KiB; the normal working set is a few MiB).
var MemLimit uint64 = 3 << 30

func cpuNow() time.Duration {
	var ru unix.Rusage
	unix.Getrusage(unix.RUSAGE_SELF, &ru)
	return time.Duration(ru.Utime.Nano() + ru.Stime.Nano())
}

// Call runs one Readline call with the given plan and exit steps.
func (s *Session) Call(plan, exit []Step) *Result {
	t := s.T
	res := &Result{}
	// make sure nothing stale is readable
	unix.IoctlSetInt(0, unix.TCFLSH, unix.TCIFLUSH)
	s.mu.Lock()
	s.plan, s.exit = plan, exit
	s.hold = false
	s.ladder = nil
	if !s.Cfg.NoLadder {
		s.ladder = DefaultLadder
	}
	s.next, s.outstanding, s.fault, s.faultReads = 0, 0, nil, 0
	s.waits, s.reads, s.abort, s.syncErr = nil, nil, "", false
	s.mu.Unlock()
	t.Sync()
	t.Lock()
	r, _, _ := t.VT[0].Cursor()
	s.base = r
	t.VT[0].Unknown, t.VT[1].Unknown = nil, nil
	t.Unlock()
	res.Base = s.base
	res.TioBefore = t.Termios()

	theGate.mu.Lock()
	theGate.cur = s
	theGate.mu.Unlock()

	type out struct {
		line  string
		err   error
		p     interface{}
		stack string
	}
	done := make(chan out, 1)
	cpu0 := cpuNow()
	// the allowance grows with the number of bytes typed: every key costs a dispatch and a
	// redisplay (a few hundred microseconds; a paste of 3 KiB legitimately takes seconds of CPU
	// on a loaded machine, a spin takes the whole allowance whatever the input)
	cpuLimit := CPULimit
	for _, st := range append(append([]Step{}, plan...), exit...) {
		cpuLimit += time.Duration(len(st.W)) * 10 * time.Millisecond
	}
	go func() {
		var o out
		defer func() {
			if p := recover(); p != nil {
				o.p = p
				buf := make([]byte, 32768)
				o.stack = string(buf[:runtime.Stack(buf, false)])
			}
			done <- o
		}()
		o.line, o.err = s.Sh.Readline()
	}()

	tick := time.NewTicker(200 * time.Millisecond)
	defer tick.Stop()
	start := time.Now()
	lastProg, lastProgAt := -1, time.Now()
	var o out
loop:
	for {
		select {
		case o = <-done:
			break loop
		case <-tick.C:
			var ms runtime.MemStats
			runtime.ReadMemStats(&ms)
			if ms.HeapAlloc > MemLimit {
				res.CPUSpin, res.MemBlowup = true, true
				res.Hung = true
				res.Dump = allStacks()
				break loop
			}
			if cpuNow()-cpu0 > cpuLimit {
				res.CPUSpin = true
				res.Hung = true
				res.Dump = allStacks()
				break loop
			}
			// Logical deadlock test: no gate activity since the last look, and two goroutine
			// dumps show the Readline goroutine blocked at the same channel/lock operation in
			// library code. A running computation can never satisfy this, whatever the load.
			s.mu.Lock()
			prog := s.progress
			s.mu.Unlock()
			if prog != lastProg {
				lastProg, lastProgAt = prog, time.Now()
			} else if time.Since(lastProgAt) > 2*time.Second {
				d1 := allStacks()
				time.Sleep(300 * time.Millisecond)
				d2 := allStacks()
				if classifyDeadlock(d1, d2) {
					res.Hung, res.Deadlock, res.Dump = true, true, d2
					break loop
				}
				// stuck keystroke: bytes were sent for this wait, the terminal queue is empty
				// (somebody else read them) and the Readline goroutine is parked in the read
				s.mu.Lock()
				stuck := s.inRead && s.outstanding > 0 && s.T.Pending() == 0 && s.fault == nil
				s.mu.Unlock()
				if stuck {
					res.Hung, res.Stuck, res.Dump = true, true, d2
					break loop
				}
				lastProgAt = time.Now()
			}
			if time.Since(start) > SessionWall {
				res.Hung = true
				res.Dump = allStacks()
				break loop
			}
		}
	}
	res.CPUms = int64((cpuNow() - cpu0) / time.Millisecond)
	theGate.mu.Lock()
	theGate.cur = nil
	theGate.mu.Unlock()

	s.mu.Lock()
	res.Waits, res.Reads = s.waits, s.reads
	res.StepsDone = s.next
	res.PlanDone = s.next >= len(s.plan)
	res.SyncErr = s.syncErr
	s.mu.Unlock()

	if !res.Hung {
		switch p := o.p.(type) {
		case nil:
			res.Returned = true
			res.Line = o.line
			if o.err != nil {
				res.Err = o.err.Error()
				res.ErrEOF = errors.Is(o.err, io.EOF)
				res.ErrIntr = errors.Is(o.err, readline.ErrInterrupt)
			}
		case gateAbort:
			switch p.why {
			case "storm":
				res.Storm = true
			default:
				res.Abandoned = true
			}
		default:
			res.Panic = fmt.Sprint(o.p)
			res.Stack = o.stack
		}
		if err := t.Sync(); err != nil {
			res.SyncErr = true
		}
	}
	res.TioAfter = t.Termios()
	t.Lock()
	rr, cc, _ := t.VT[0].Cursor()
	res.EndRow, res.EndCol = rr-s.base, cc
	res.EndStyle = t.VT[0].Style
	if s.Cfg.Screen {
		for i := range t.VT {
			res.EndScreen[i] = t.VT[i].Dump(s.base)
			res.EndGrid[i] = t.VT[i].Grid(s.base, t.VT[i].NRows())
		}
	}
	res.Unknown = append([]string(nil), t.VT[0].Unknown...)
	t.Unlock()
	unix.IoctlSetInt(0, unix.TCFLSH, unix.TCIFLUSH)
	return res
}

func allStacks() string {
	buf := make([]byte, 1<<20)
	return string(buf[:runtime.Stack(buf, true)])
}

// readlineGoroutine extracts the stanza of the goroutine running Shell.Readline from a dump.
func readlineGoroutine(dump string) string {
	for _, g := range strings.Split(dump, "\n\n") {
		if strings.Contains(g, "(*Shell).Readline") && !strings.Contains(g, "sess.(*Session).Call(") {
			return g
		}
	}
	return ""
}

// classifyDeadlock: the Readline goroutine is, in two dumps taken apart, blocked at the same
// place on a channel/lock operation inside library code (not in the terminal read).
func classifyDeadlock(d1, d2 string) bool {
	g1, g2 := readlineGoroutine(d1), readlineGoroutine(d2)
	if g1 == "" || g2 == "" {
		return false
	}
	h := func(g string) (state string, frames string) {
		lines := strings.Split(g, "\n")
		if len(lines) == 0 {
			return
		}
		if i := strings.Index(lines[0], "["); i >= 0 {
			state = strings.TrimSuffix(lines[0][i+1:], "]:")
			if j := strings.Index(state, ","); j >= 0 {
				state = state[:j]
			}
		}
		var fs []string
		for _, l := range lines[1:] {
			if !strings.HasPrefix(l, "\t") {
				fs = append(fs, l)
			}
		}
		return state, strings.Join(fs, "|")
	}
	s1, f1 := h(g1)
	s2, f2 := h(g2)
	if s1 != s2 || f1 != f2 {
		return false
	}
	// blocked in the direct terminal read of a cursor-position query: the emulator answers every
	// query (at once, or within the 250 ms release of a held answer), so two identical dumps
	// seconds later mean the answer was consumed by somebody else
	if (s1 == "IO wait" || s1 == "syscall") && strings.Contains(f1, "core.(*Keys).GetCursorPos") {
		return true
	}
	switch s1 {
	case "chan receive", "chan send", "select", "sync.Mutex.Lock", "sync.RWMutex.Lock", "sync.RWMutex.RLock", "semacquire", "sync.Cond.Wait", "chan receive (nil chan)", "chan send (nil chan)", "select (no cases)":
		return !strings.Contains(strings.SplitN(f1, "|", 2)[0], "sess.")
	}
	return false
}

// Hold stops the gate from delivering plan steps: the main loop just goes to its terminal read.
// A helper goroutine started by a step action delivers the next step itself (TakeSteps + a write
// to the terminal) and then calls Release. Used to let an asynchronous disturbance run to its
// end while the main loop is really parked in its read.
func (s *Session) Hold() {
	s.mu.Lock()
	s.hold = true
	s.mu.Unlock()
}

// Release ends a Hold.
func (s *Session) Release() {
	s.mu.Lock()
	s.hold = false
	s.mu.Unlock()
}

// InRead reports whether the Readline goroutine is inside its terminal read.
func (s *Session) InRead() bool {
	s.mu.Lock()
	defer s.mu.Unlock()
	return s.inRead
}

// Idle reports whether every byte typed so far has been read by the library.
func (s *Session) Idle() bool {
	s.mu.Lock()
	defer s.mu.Unlock()
	return s.outstanding == 0 && s.T.Pending() == 0
}

// LastWaitKind is the kind ("main" / "arg") of the most recent input wait. To be called from a
// step action (Readline goroutine).
func (s *Session) LastWaitKind() string {
	if n := len(s.waits); n > 0 {
		return s.waits[n-1].Kind
	}
	return ""
}

// AllStacks returns a dump of all goroutines.
func AllStacks() string { return allStacks() }

// Stanzas returns the goroutine stanzas of a dump that contain the marker.
func Stanzas(dump, marker string) []string {
	var out []string
	for _, g := range strings.Split(dump, "\n\n") {
		if strings.Contains(g, marker) {
			out = append(out, g)
		}
	}
	return out
}

// BlockState returns the wait state and the function frames of a goroutine stanza.
func BlockState(g string) (state string, frames []string) {
	lines := strings.Split(g, "\n")
	if len(lines) == 0 {
		return
	}
	if i := strings.Index(lines[0], "["); i >= 0 {
		state = strings.TrimSuffix(lines[0][i+1:], "]:")
		if j := strings.Index(state, ","); j >= 0 {
			state = state[:j]
		}
	}
	for _, l := range lines[1:] {
		if !strings.HasPrefix(l, "\t") && l != "" {
			if k := strings.LastIndex(l, "("); k > 0 {
				l = l[:k]
			}
			frames = append(frames, l)
		}
	}
	return
}

// ReadlineStack returns the Readline goroutine's part of a dump.
func ReadlineStack(dump string) string { return readlineGoroutine(dump) }

// LastDelivered returns the bytes of the most recently delivered plan step ("" if none).
func (s *Session) LastDelivered() string {
	s.mu.Lock()
	defer s.mu.Unlock()
	if i := s.next - 1; i >= 0 && i < len(s.plan) {
		return s.plan[i].W
	}
	return ""
}

// StepsTaken is the number of delivery steps taken so far in the current call.
func (s *Session) StepsTaken() int {
	s.mu.Lock()
	defer s.mu.Unlock()
	return s.next
}

// TakeSteps removes up to k not yet delivered plan steps that type bytes (used for type-ahead
// delivered by the emulator together with a cursor report). Fault/exit steps are never taken.
func (s *Session) TakeSteps(k int) []Step {
	s.mu.Lock()
	defer s.mu.Unlock()
	var out []Step
	for len(out) < k && s.next < len(s.plan) {
		st := s.plan[s.next]
		if st.EOF || st.EIO || st.Do != "" {
			break
		}
		out = append(out, st)
		s.next++
	}
	for _, st := range out {
		s.outstanding += len(st.W)
	}
	return out
}
