package sess

import (
	"encoding/base64"
	"encoding/json"
	"unicode/utf8"
)

// Steps carry raw terminal bytes, which need not be valid UTF-8 (JSON would silently replace
// invalid bytes by U+FFFD). W is therefore written as "w" when it is valid UTF-8 and as
// base64 in "wb64" otherwise.
type stepJSON struct {
	W    string `json:"w,omitempty"`
	WB64 string `json:"wb64,omitempty"`
	EOF  bool   `json:"eof,omitempty"`
	EIO  bool   `json:"eio,omitempty"`
	Do   string `json:"do,omitempty"`
	Arg  string `json:"arg,omitempty"`
	Tag  string `json:"tag,omitempty"`
}

func (s Step) MarshalJSON() ([]byte, error) {
	j := stepJSON{EOF: s.EOF, EIO: s.EIO, Do: s.Do, Arg: s.Arg, Tag: s.Tag}
	if utf8.ValidString(s.W) {
		j.W = s.W
	} else {
		j.WB64 = base64.StdEncoding.EncodeToString([]byte(s.W))
	}
	return json.Marshal(j)
}

func (s *Step) UnmarshalJSON(b []byte) error {
	var j stepJSON
	if err := json.Unmarshal(b, &j); err != nil {
		return err
	}
	*s = Step{W: j.W, EOF: j.EOF, EIO: j.EIO, Do: j.Do, Arg: j.Arg, Tag: j.Tag}
	if j.WB64 != "" {
		raw, err := base64.StdEncoding.DecodeString(j.WB64)
		if err != nil {
			return err
		}
		s.W = string(raw)
	}
	return nil
}
