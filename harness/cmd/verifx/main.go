// verifx is the single binary behind /verif/check: driver, worker and replay.
package main

import (
	"fmt"
	"os"
	"strconv"

	"verif/fw"
	_ "verif/props"
)

func main() {
	if len(os.Args) < 2 {
		fmt.Println("usage: verifx drive <ID> <tier> | work ... | replay <file> | list")
		os.Exit(2)
	}
	switch os.Args[1] {
	case "list":
		for _, id := range fw.IDs() {
			fmt.Println(id)
		}
	case "drive":
		tier := "quick"
		if len(os.Args) > 3 {
			tier = os.Args[3]
		}
		seed := int64(1)
		if v := os.Getenv("VERIF_SEED"); v != "" {
			if n, err := strconv.ParseInt(v, 10, 64); err == nil {
				seed = n
			}
		}
		os.Exit(fw.DriverMain(os.Args[2], tier, seed))
	case "work":
		os.Exit(fw.WorkerMain(os.Args[2:]))
	case "replay":
		os.Exit(fw.ReplayMain(os.Args[2]))
	default:
		fmt.Println("unknown subcommand")
		os.Exit(2)
	}
}
