// Package vt is a small VT100/xterm screen model used as the observation point for
// everything the library paints: deferred autowrap, scrolling with absolute rows,
// the CSI subset a line editor emits, DSR(6) callbacks, an OSC sync sentinel and
// DECSCUSR tracking. Sequences it does not model are recorded in Unknown, so that a
// frame that depends on them is judged inconclusive instead of wrong.
package vt

import (
	"fmt"
	"strconv"
	"strings"
	"unicode"
	"unicode/utf8"
)

// ELRule selects what `ESC[K` does while the cursor is in the deferred-wrap state.
type ELRule int

const (
	// ELXterm: DEC/xterm/Linux console: the cursor is on the last column, that cell is erased.
	ELXterm ELRule = iota
	// ELVTE: VTE-style: nothing is erased in the pending-wrap state.
	ELVTE
)

// Cell is one screen cell.
type Cell struct {
	R    []rune // base + combining; nil == blank
	Cont bool   // right half of a wide char
}

// VT is the screen model.
type VT struct {
	W, H     int
	Rule     ELRule
	rows     [][]Cell // absolute rows, grows
	top      int      // absolute index of first visible row
	cr, cc   int      // cursor row (relative to top) / col
	wrapPend bool
	saved    [2]int
	Style    string // last DECSCUSR parameter seen ("" = never)
	Hidden   bool
	Unknown  []string
	Bells    int
	// parser
	st  int
	buf []byte
	u8  []byte
	// callbacks
	OnDSR  func(row, col int) // 1-based
	OnSync func(id int)
}

// New returns a blank screen.
func New(w, h int, rule ELRule) *VT {
	v := &VT{W: w, H: h, Rule: rule}
	v.ensure(h - 1)
	return v
}

func (v *VT) ensure(rel int) {
	for len(v.rows) <= v.top+rel {
		v.rows = append(v.rows, make([]Cell, v.W))
	}
}

// Resize keeps content, pads/truncates columns (no reflow, like xterm).
func (v *VT) Resize(w, h int) {
	for i := range v.rows {
		row := v.rows[i]
		if len(row) < w {
			row = append(row, make([]Cell, w-len(row))...)
		} else {
			row = row[:w]
		}
		v.rows[i] = row
	}
	v.W, v.H = w, h
	if v.cc >= w {
		v.cc = w - 1
	}
	if v.cr >= h {
		v.top += v.cr - (h - 1)
		v.cr = h - 1
	}
	v.wrapPend = false
	v.ensure(h - 1)
}

// RuneWidth is an independent wcwidth: 0 for combining/format, 2 for East Asian wide/fullwidth.
func RuneWidth(r rune) int {
	switch {
	case r == 0:
		return 0
	case r < 0x20 || (r >= 0x7f && r < 0xa0):
		return 0
	case unicode.Is(unicode.Mn, r) || unicode.Is(unicode.Me, r) || unicode.Is(unicode.Cf, r):
		return 0
	case r >= 0x1100 && r <= 0x115f, r >= 0x2e80 && r <= 0x303e, r >= 0x3041 && r <= 0x33ff,
		r >= 0x3400 && r <= 0x4dbf, r >= 0x4e00 && r <= 0x9fff, r >= 0xa000 && r <= 0xa4cf,
		r >= 0xac00 && r <= 0xd7a3, r >= 0xf900 && r <= 0xfaff, r >= 0xfe30 && r <= 0xfe6f,
		r >= 0xff00 && r <= 0xff60, r >= 0xffe0 && r <= 0xffe6, r >= 0x1f300 && r <= 0x1f64f,
		r >= 0x1f900 && r <= 0x1f9ff, r >= 0x20000 && r <= 0x3fffd:
		return 2
	}
	return 1
}

// Write feeds output bytes.
func (v *VT) Write(p []byte) {
	for _, b := range p {
		v.feed(b)
	}
}

const (
	stGround = iota
	stEsc
	stCSI
	stOSC
	stOSCEsc
	stCharset
)

func (v *VT) feed(b byte) {
	switch v.st {
	case stGround:
		if len(v.u8) > 0 || b >= 0x80 {
			if len(v.u8) > 0 && b&0xC0 != 0x80 {
				// a sequence was cut short: the pending bytes are garbage, b starts afresh
				v.Unknown = append(v.Unknown, fmt.Sprintf("badutf8 %x", v.u8))
				v.u8 = v.u8[:0]
				if b < 0x80 {
					v.feed(b)
					return
				}
			}
			v.u8 = append(v.u8, b)
			if !utf8.FullRune(v.u8) {
				return
			}
			r, size := utf8.DecodeRune(v.u8)
			if r == utf8.RuneError && size <= 1 {
				v.Unknown = append(v.Unknown, fmt.Sprintf("badutf8 %x", v.u8))
				v.u8 = v.u8[:0]
				return
			}
			v.u8 = v.u8[:0]
			v.put(r)
			return
		}
		switch b {
		case 0x1b:
			v.st = stEsc
		case '\r':
			v.cc, v.wrapPend = 0, false
		case '\n', 0x0b, 0x0c:
			v.lf()
		case '\b':
			if v.cc > 0 {
				v.cc--
			}
			v.wrapPend = false
		case '\t':
			v.cc = (v.cc/8 + 1) * 8
			if v.cc >= v.W {
				v.cc = v.W - 1
			}
		case 7:
			v.Bells++
		case 0:
		default:
			if b >= 0x20 && b != 0x7f {
				v.put(rune(b))
			}
		}
	case stEsc:
		switch b {
		case '[':
			v.st, v.buf = stCSI, v.buf[:0]
		case ']':
			v.st, v.buf = stOSC, v.buf[:0]
		case '7':
			v.saved = [2]int{v.top + v.cr, v.cc}
			v.st = stGround
		case '8':
			v.cr, v.cc = v.saved[0]-v.top, v.saved[1]
			if v.cr < 0 {
				v.cr = 0
			}
			if v.cr > v.H-1 {
				v.cr = v.H - 1
			}
			if v.cc > v.W-1 {
				v.cc = v.W - 1
			}
			v.wrapPend = false
			v.st = stGround
		case '(', ')':
			v.st = stCharset
		case '=', '>':
			v.st = stGround
		case 0x1b:
			// ESC ESC: stay
		default:
			v.Unknown = append(v.Unknown, fmt.Sprintf("ESC %q", b))
			v.st = stGround
		}
	case stCharset:
		v.st = stGround
	case stCSI:
		if b >= 0x40 && b <= 0x7e {
			v.csi(string(v.buf), b)
			v.st = stGround
		} else if b == 0x1b {
			v.Unknown = append(v.Unknown, fmt.Sprintf("CSI aborted %q", v.buf))
			v.st = stEsc
		} else {
			v.buf = append(v.buf, b)
		}
	case stOSC:
		if b == 7 {
			v.osc(string(v.buf))
			v.st = stGround
		} else if b == 0x1b {
			v.st = stOSCEsc
		} else {
			v.buf = append(v.buf, b)
		}
	case stOSCEsc:
		v.osc(string(v.buf))
		v.st = stGround
	}
}

func (v *VT) osc(s string) {
	if strings.HasPrefix(s, "777;sync;") {
		id, _ := strconv.Atoi(s[len("777;sync;"):])
		if v.OnSync != nil {
			v.OnSync(id)
		}
	}
}

func (v *VT) lf() {
	v.wrapPend = false
	if v.cr == v.H-1 {
		v.top++
		v.ensure(v.H - 1)
	} else {
		v.cr++
	}
}

func (v *VT) row() []Cell { v.ensure(v.cr); return v.rows[v.top+v.cr] }

func (v *VT) put(r rune) {
	w := RuneWidth(r)
	if w == 0 {
		// combining: attach to previous cell
		c := v.cc
		if !v.wrapPend {
			c--
		}
		row := v.row()
		for c >= 0 && row[c].Cont {
			c--
		}
		if c >= 0 && row[c].R != nil {
			row[c].R = append(append([]rune(nil), row[c].R...), r)
		}
		return
	}
	if v.wrapPend {
		v.cc = 0
		v.lf()
	}
	if w == 2 && v.cc == v.W-1 {
		// wide char does not fit: wrap first
		v.cc = 0
		v.lf()
	}
	row := v.row()
	v.clearCell(row, v.cc)
	row[v.cc] = Cell{R: []rune{r}}
	if w == 2 {
		v.clearCell(row, v.cc+1)
		if v.cc+1 < len(row) {
			row[v.cc+1] = Cell{Cont: true}
		}
	}
	if v.cc+w >= v.W {
		v.cc = v.W - 1
		v.wrapPend = true
	} else {
		v.cc += w
	}
}

func (v *VT) clearCell(row []Cell, c int) {
	if c < 0 || c >= len(row) {
		return
	}
	if row[c].Cont && c > 0 {
		row[c-1] = Cell{}
	}
	if row[c].R != nil && c+1 < len(row) && row[c+1].Cont {
		row[c+1] = Cell{}
	}
	row[c] = Cell{}
}

func params(s string, def int) []int {
	if s == "" {
		return []int{def}
	}
	var out []int
	for _, p := range strings.Split(s, ";") {
		n, err := strconv.Atoi(p)
		if err != nil || p == "" {
			n = def
		}
		out = append(out, n)
	}
	return out
}

func (v *VT) csi(p string, final byte) {
	priv := strings.HasPrefix(p, "?")
	if priv {
		p = p[1:]
	}
	inter := ""
	for len(p) > 0 && p[len(p)-1] >= 0x20 && p[len(p)-1] <= 0x2f {
		inter = string(p[len(p)-1]) + inter
		p = p[:len(p)-1]
	}
	switch {
	case final == 'A':
		n := max1(params(p, 1)[0])
		v.cr -= n
		if v.cr < 0 {
			v.cr = 0
		}
		v.wrapPend = false
	case final == 'B':
		n := max1(params(p, 1)[0])
		v.cr += n
		if v.cr > v.H-1 {
			v.cr = v.H - 1
		}
		v.wrapPend = false
	case final == 'C':
		n := max1(params(p, 1)[0])
		v.cc += n
		if v.cc > v.W-1 {
			v.cc = v.W - 1
		}
		v.wrapPend = false
	case final == 'D':
		n := max1(params(p, 1)[0])
		v.cc -= n
		if v.cc < 0 {
			v.cc = 0
		}
		v.wrapPend = false
	case final == 'G':
		v.cc = clamp(params(p, 1)[0]-1, 0, v.W-1)
		v.wrapPend = false
	case final == 'H' || final == 'f':
		ps := params(p, 1)
		r, c := ps[0], 1
		if len(ps) > 1 {
			c = ps[1]
		}
		v.cr, v.cc = clamp(r-1, 0, v.H-1), clamp(c-1, 0, v.W-1)
		v.wrapPend = false
	case final == 'J':
		switch params(p, 0)[0] {
		case 0:
			v.eraseToEOL()
			for r := v.cr + 1; r < v.H; r++ {
				v.eraseLine(r, 0, v.W)
			}
		case 1:
			for r := 0; r < v.cr; r++ {
				v.eraseLine(r, 0, v.W)
			}
			v.eraseLine(v.cr, 0, v.cc+1)
		case 2:
			for r := 0; r < v.H; r++ {
				v.eraseLine(r, 0, v.W)
			}
		case 3:
			v.rows = v.rows[v.top:]
			v.top = 0
		}
	case final == 'K':
		switch params(p, 0)[0] {
		case 0:
			v.eraseToEOL()
		case 1:
			v.eraseLine(v.cr, 0, v.cc+1)
		case 2:
			v.eraseLine(v.cr, 0, v.W)
		}
	case final == 'm':
	case final == 'h' && priv, final == 'l' && priv:
		if params(p, 0)[0] == 25 {
			v.Hidden = final == 'l'
		}
	case final == 'q' && inter == " ":
		v.Style = p
	case final == 'n':
		if params(p, 0)[0] == 6 && v.OnDSR != nil {
			v.OnDSR(v.cr+1, v.cc+1)
		}
	case final == 'R' || final == '~' || final == 'Z':
		// key-like sequences echoed by a cooked tty: ignore
	default:
		v.Unknown = append(v.Unknown, fmt.Sprintf("CSI %q %q %c", p, inter, final))
	}
}

func (v *VT) eraseToEOL() {
	if v.wrapPend && v.Rule == ELVTE {
		return
	}
	v.eraseLine(v.cr, v.cc, v.W)
}

func (v *VT) eraseLine(rel, from, to int) {
	v.ensure(rel)
	row := v.rows[v.top+rel]
	for c := from; c < to && c < len(row); c++ {
		v.clearCell(row, c)
	}
}

func max1(n int) int {
	if n < 1 {
		return 1
	}
	return n
}

func clamp(x, lo, hi int) int {
	if x < lo {
		return lo
	}
	if x > hi {
		return hi
	}
	return x
}

// Cursor returns absolute row and column and the deferred-wrap flag.
func (v *VT) Cursor() (absRow, col int, pending bool) { return v.top + v.cr, v.cc, v.wrapPend }

// Top is the absolute index of the first visible row.
func (v *VT) Top() int { return v.top }

// NRows is the number of absolute rows that exist.
func (v *VT) NRows() int { return len(v.rows) }

// RowCells returns a copy of an absolute row.
func (v *VT) RowCells(abs int) []Cell {
	if abs < 0 || abs >= len(v.rows) {
		return make([]Cell, v.W)
	}
	out := make([]Cell, len(v.rows[abs]))
	copy(out, v.rows[abs])
	return out
}

// RowText renders an absolute row as a string, blanks as spaces, right-trimmed.
func (v *VT) RowText(abs int) string {
	if abs < 0 || abs >= len(v.rows) {
		return ""
	}
	return CellsText(v.rows[abs])
}

// CellsText renders a row of cells, right-trimmed.
func CellsText(row []Cell) string {
	var sb strings.Builder
	for _, c := range row {
		switch {
		case c.Cont:
		case c.R == nil:
			sb.WriteByte(' ')
		default:
			sb.WriteString(string(c.R))
		}
	}
	return strings.TrimRight(sb.String(), " ")
}

// Dump renders all rows from an absolute row to the last non-blank row.
func (v *VT) Dump(from int) []string {
	var out []string
	if from < 0 {
		from = 0
	}
	last := from - 1
	for i := from; i < len(v.rows); i++ {
		if v.RowText(i) != "" {
			last = i
		}
	}
	for i := from; i <= last && i < len(v.rows); i++ {
		out = append(out, v.RowText(i))
	}
	return out
}

// Grid returns copies of rows [from, to).
func (v *VT) Grid(from, to int) [][]Cell {
	var out [][]Cell
	for i := from; i < to; i++ {
		out = append(out, v.RowCells(i))
	}
	return out
}
