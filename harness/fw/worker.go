package fw

import (
	"bufio"
	"encoding/json"
	"flag"
	"fmt"
	"os"
	"path/filepath"
	"runtime/debug"

	"verif/sess"
)

type wline struct {
	Begin *int     `json:"begin,omitempty"`
	Out   *Outcome `json:"out,omitempty"`
	Done  bool     `json:"done,omitempty"`
	Race  int      `json:"race,omitempty"` // bytes of race log attributed to the case in Out
}

// Replay is the content of a replay file.
type Replay struct {
	Prop     string          `json:"property"`
	Tier     string          `json:"tier"`
	Seed     int64           `json:"seed"`
	Idx      int             `json:"idx"`
	Sig      string          `json:"sig"`
	Detail   string          `json:"detail"`
	Case     json.RawMessage `json:"case"`
	Findings []Finding       `json:"findings,omitempty"`
	Crash    string          `json:"crash,omitempty"`
	Cmd      string          `json:"replay_cmd,omitempty"`
}

func setupEnv(p *Prop, scratch string, tier string, seed int64, verbose bool) (*Env, error) {
	env := &Env{Scratch: scratch, Tier: tier, Seed: seed, Verbose: verbose, Race: RaceEnabled}
	os.MkdirAll(scratch, 0o755)
	if p.NeedsTerm {
		t, err := sess.Setup(80, 24)
		if err != nil {
			return nil, err
		}
		sess.InstallGate()
		env.T = t
	}
	return env, nil
}

// WorkerMain runs a stride of cases and appends JSON lines to the out file.
func WorkerMain(args []string) int {
	fs := flag.NewFlagSet("work", flag.ExitOnError)
	prop := fs.String("prop", "", "")
	tier := fs.String("tier", "quick", "")
	seed := fs.Int64("seed", 1, "")
	start := fs.Int("start", 0, "")
	stride := fs.Int("stride", 1, "")
	n := fs.Int("n", 0, "")
	outPath := fs.String("out", "", "")
	crashPath := fs.String("crash", "", "")
	scratch := fs.String("scratch", "", "")
	racelog := fs.String("racelog", "", "")
	fs.Parse(args)
	p := Get(*prop)
	if p == nil {
		fmt.Fprintln(os.Stderr, "unknown property", *prop)
		return 2
	}
	outf, err := os.OpenFile(*outPath, os.O_CREATE|os.O_WRONLY|os.O_APPEND, 0o644)
	if err != nil {
		fmt.Fprintln(os.Stderr, err)
		return 2
	}
	if *crashPath != "" {
		if cf, err := os.OpenFile(*crashPath, os.O_CREATE|os.O_WRONLY|os.O_APPEND, 0o644); err == nil {
			debug.SetCrashOutput(cf, debug.CrashOptions{})
		}
	}
	debug.SetTraceback("all")
	w := bufio.NewWriter(outf)
	emit := func(l wline) {
		b, _ := json.Marshal(l)
		w.Write(b)
		w.WriteByte('\n')
		w.Flush()
	}
	env, err := setupEnv(p, *scratch, *tier, *seed, false)
	if err != nil {
		fmt.Fprintln(os.Stderr, "setup:", err)
		return 2
	}
	raceSize := func() int {
		if *racelog == "" {
			return 0
		}
		m, _ := filepath.Glob(*racelog + ".*")
		tot := 0
		for _, f := range m {
			if st, err := os.Stat(f); err == nil {
				tot += int(st.Size())
			}
		}
		return tot
	}
	kept := 0
	for idx := *start; idx < *n; idx += *stride {
		i := idx
		emit(wline{Begin: &i})
		r0 := raceSize()
		c := p.Gen(CaseRNG(*seed, idx), *tier, idx)
		raw, err := json.Marshal(c)
		if err != nil {
			fmt.Fprintln(os.Stderr, "marshal:", err)
			return 2
		}
		o := p.Run(env, raw)
		o.Idx = idx
		if len(o.Findings) == 0 && len(o.Inconcl) == 0 {
			if kept >= 2 {
				o.Sample = nil
			} else if o.Sample != nil {
				kept++
			}
		}
		o.Trace = nil
		emit(wline{Out: &o, Race: raceSize() - r0})
		if o.Recycle {
			return 3
		}
	}
	emit(wline{Done: true})
	return 0
}

// ReplayMain re-runs the case of a replay file verbosely.
func ReplayMain(path string) int {
	b, err := os.ReadFile(path)
	if err != nil {
		fmt.Fprintln(os.Stderr, err)
		return 2
	}
	var r Replay
	if err := json.Unmarshal(b, &r); err != nil {
		fmt.Fprintln(os.Stderr, err)
		return 2
	}
	p := Get(r.Prop)
	if p == nil {
		fmt.Fprintln(os.Stderr, "unknown property", r.Prop)
		return 2
	}
	scratch, _ := os.MkdirTemp(workRoot(), "replay-")
	defer os.RemoveAll(scratch)
	stdout := os.NewFile(uintptr(dupFd(1)), "stdout")
	env, err := setupEnv(p, scratch, r.Tier, r.Seed, true)
	if err != nil {
		fmt.Fprintln(os.Stderr, err)
		return 2
	}
	o := p.Run(env, r.Case)
	o.Idx = r.Idx
	enc := json.NewEncoder(stdout)
	enc.SetIndent("", " ")
	enc.Encode(o)
	if len(o.Findings) > 0 {
		for _, f := range o.Findings {
			fmt.Fprintf(stdout, "REPRODUCED property=%s sig=%s\n", r.Prop, f.Sig)
		}
		return 1
	}
	fmt.Fprintf(stdout, "NOT-REPRODUCED property=%s\n", r.Prop)
	return 0
}
