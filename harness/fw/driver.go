package fw

import (
	"bufio"
	"encoding/json"
	"fmt"
	"hash/fnv"
	"os"
	"os/exec"
	"path/filepath"
	"regexp"
	"runtime"
	"sort"
	"strconv"
	"strings"
	"sync"
	"syscall"
	"time"
)

// RaceEnabled is true in the -race build.
var RaceEnabled = false

func verifRoot() string {
	if r := os.Getenv("VERIF_ROOT"); r != "" {
		return r
	}
	return "/verif"
}

func workRoot() string {
	d := filepath.Join(verifRoot(), ".work")
	os.MkdirAll(d, 0o755)
	return d
}

func dupFd(fd int) int {
	n, err := syscall.Dup(fd)
	if err != nil {
		return fd
	}
	return n
}

// FindingAgg aggregates one signature.
type FindingAgg struct {
	Sig    string
	Count  int
	Idx    int
	Detail string
	Known  bool
	What   string
}

// Agg is the driver-side aggregate of all outcomes.
type Agg struct {
	Prop     *Prop
	Tier     string
	Seed     int64
	N        int
	Evals    int
	Events   int
	Cov      map[string]int
	Count    map[string]int
	Sets     map[string]map[string]bool
	Inconcl  map[string]int
	Findings map[string]*FindingAgg
	Samples  []any
	Crashes  int
	Recycles int
	mu       sync.Mutex
}

func (a *Agg) addFinding(idx int, f Finding) {
	fa := a.Findings[f.Sig]
	if fa == nil {
		fa = &FindingAgg{Sig: f.Sig, Idx: idx, Detail: f.Detail}
		a.Findings[f.Sig] = fa
	}
	if idx < fa.Idx {
		fa.Idx, fa.Detail = idx, f.Detail
	}
	fa.Count++
}

// Viol lets a Post hook add a cross-case violation.
func (a *Agg) Viol(idx int, sig, detail string) { a.addFinding(idx, Finding{Sig: sig, Detail: detail}) }

func (a *Agg) add(o *Outcome) {
	a.mu.Lock()
	defer a.mu.Unlock()
	a.Evals++
	a.Events += o.Events
	for _, k := range o.Cov {
		a.Cov[k]++
	}
	for k, v := range o.Count {
		a.Count[k] += v
	}
	for k, vs := range o.Sets {
		if a.Sets[k] == nil {
			a.Sets[k] = map[string]bool{}
		}
		for _, v := range vs {
			a.Sets[k][v] = true
		}
	}
	for _, r := range o.Inconcl {
		a.Inconcl[r]++
	}
	for _, f := range o.Findings {
		a.addFinding(o.Idx, f)
	}
	if o.Recycle {
		a.Recycles++
	}
	if o.Sample != nil && len(a.Samples) < 6 {
		a.Samples = append(a.Samples, o.Sample)
	}
}

// Known is one line of known_findings.txt.
type Known struct {
	Status string // known | fixed
	Prop   string
	Sig    string
	What   string
}

var rxKnown = regexp.MustCompile(`^known: property=(\S+) sig=(\S+) (.*)$`)
var rxFixed = regexp.MustCompile(`^fixed: property=(\S+) (.*)$`)

// LoadKnown reads the committed known-findings file (never written at run time).
func LoadKnown() []Known {
	f, err := os.Open(filepath.Join(verifRoot(), "known_findings.txt"))
	if err != nil {
		return nil
	}
	defer f.Close()
	var out []Known
	sc := bufio.NewScanner(f)
	for sc.Scan() {
		l := strings.TrimSpace(sc.Text())
		if m := rxKnown.FindStringSubmatch(l); m != nil {
			out = append(out, Known{"known", m[1], m[2], m[3]})
		} else if m := rxFixed.FindStringSubmatch(l); m != nil {
			out = append(out, Known{"fixed", m[1], "", m[2]})
		}
	}
	return out
}

var rxNum = regexp.MustCompile(`[0-9]+`)
var rxHex = regexp.MustCompile(`0x[0-9a-f]+`)
var rxFrame = regexp.MustCompile(`(?m)^(\S[^\n]*)\n\t(/[^\s:]+):\d+`)

// CrashSig computes a line-number-free signature from a panic message and a Go stack.
func CrashSig(msg, stack string) string {
	m := strings.TrimSpace(msg)
	if i := strings.IndexByte(m, '\n'); i >= 0 {
		m = m[:i]
	}
	m = strings.TrimPrefix(m, "runtime error: ")
	m = rxHex.ReplaceAllString(m, "H")
	m = rxNum.ReplaceAllString(m, "N")
	if strings.Contains(m, "[recovered]") {
		m = strings.TrimSpace(strings.Split(m, "[recovered]")[0])
	}
	if len(m) > 70 {
		m = m[:70]
	}
	m = strings.ReplaceAll(m, " ", "_")
	var fs []string
	for _, f := range rxFrame.FindAllStringSubmatch(stack, -1) {
		if !strings.HasPrefix(f[2], "/repo/") {
			continue
		}
		fn := f[1]
		if i := strings.LastIndex(fn, "("); i > 0 {
			fn = fn[:i]
		}
		fn = strings.TrimPrefix(fn, "github.com/reeflective/readline")
		fn = strings.TrimPrefix(fn, "/")
		fn = strings.TrimPrefix(fn, "internal/")
		if strings.HasPrefix(fn, "panic") {
			continue
		}
		fs = append(fs, fn)
		if len(fs) == 3 {
			break
		}
	}
	return "crash:" + m + "@" + strings.Join(fs, "<")
}

func crashFromText(txt string) (sig, detail string) {
	// take the first "panic:" / "fatal error:" / "SIGQUIT" line
	lines := strings.Split(txt, "\n")
	msg := ""
	for _, l := range lines {
		if strings.HasPrefix(l, "panic:") || strings.HasPrefix(l, "fatal error:") || strings.HasPrefix(l, "SIG") || strings.HasPrefix(l, "runtime:") {
			msg = l
			break
		}
	}
	if msg == "" && len(lines) > 0 {
		msg = lines[0]
	}
	detail = txt
	if len(detail) > 6000 {
		detail = detail[:6000]
	}
	return CrashSig(msg, txt), detail
}

type workerState struct {
	w       int
	outPath string
	offset  int64
}

// DriverMain runs one property check and returns the process exit code.
func DriverMain(propID, tier string, seed int64) int {
	t0 := time.Now()
	p := Get(propID)
	if p == nil {
		fmt.Println("unknown property", propID)
		return 2
	}
	stdout := os.Stdout
	N := p.N(tier)
	if v := os.Getenv("VERIF_N"); v != "" {
		if n, err := strconv.Atoi(v); err == nil {
			N = n
		}
	}
	nw := runtime.NumCPU()
	if nw > 16 {
		nw = 16
	}
	if p.Workers > 0 {
		nw = p.Workers
	}
	if v := os.Getenv("VERIF_WORKERS"); v != "" {
		if n, err := strconv.Atoi(v); err == nil && n > 0 {
			nw = n
		}
	}
	if nw > N {
		nw = N
	}
	work, err := os.MkdirTemp(workRoot(), propID+"-")
	if err != nil {
		fmt.Println("BROKEN:", err)
		return 2
	}
	defer os.RemoveAll(work)

	agg := &Agg{Prop: p, Tier: tier, Seed: seed, N: N, Cov: map[string]int{}, Count: map[string]int{}, Sets: map[string]map[string]bool{}, Inconcl: map[string]int{}, Findings: map[string]*FindingAgg{}}
	self, _ := os.Executable()
	var wg sync.WaitGroup
	for w := 0; w < nw; w++ {
		wg.Add(1)
		go func(w int) {
			defer wg.Done()
			runWorkerStride(agg, self, work, w, nw, N)
		}(w)
	}
	wg.Wait()

	if RaceEnabled {
		collectRaces(agg, work)
	}
	if p.Post != nil {
		p.Post(agg)
	}
	return finish(agg, stdout, t0)
}

func runWorkerStride(agg *Agg, self, work string, w, stride, N int) {
	p := agg.Prop
	next := w
	outPath := filepath.Join(work, fmt.Sprintf("out-%d.jsonl", w))
	var offset int64
	restarts := 0
	for next < N {
		crashPath := filepath.Join(work, fmt.Sprintf("crash-%d-%d.txt", w, restarts))
		scratch := filepath.Join(work, fmt.Sprintf("scratch-%d", w))
		racelog := filepath.Join(work, fmt.Sprintf("race-%d", w))
		cmd := exec.Command(self, "work", "-prop", p.ID, "-tier", agg.Tier, "-seed", fmt.Sprint(agg.Seed),
			"-start", fmt.Sprint(next), "-stride", fmt.Sprint(stride), "-n", fmt.Sprint(N),
			"-out", outPath, "-crash", crashPath, "-scratch", scratch, "-racelog", racelog)
		cmd.Env = append(os.Environ(), "GOTRACEBACK=all")
		if RaceEnabled {
			cmd.Env = append(cmd.Env, "GORACE=halt_on_error=0 history_size=3 log_path="+racelog)
		}
		errf, _ := os.Create(filepath.Join(work, fmt.Sprintf("stderr-%d-%d.txt", w, restarts)))
		cmd.Stderr = errf
		cmd.Stdout = errf
		cmd.Stdin = nil
		if err := cmd.Start(); err != nil {
			agg.mu.Lock()
			agg.Inconcl["worker-start-failed: "+err.Error()]++
			agg.mu.Unlock()
			return
		}
		done := make(chan error, 1)
		go func() { done <- cmd.Wait() }()
		// stall watchdog: plumbing only; a stalled worker makes its case inconclusive
		stalled := false
		lastSize, lastChange := int64(-1), time.Now()
		tick := time.NewTicker(2 * time.Second)
	wait:
		for {
			select {
			case <-done:
				break wait
			case <-tick.C:
				if st, err := os.Stat(outPath); err == nil && st.Size() != lastSize {
					lastSize, lastChange = st.Size(), time.Now()
				}
				if time.Since(lastChange) > 240*time.Second {
					stalled = true
					cmd.Process.Signal(syscall.SIGQUIT)
					time.Sleep(2 * time.Second)
					cmd.Process.Kill()
				}
			}
		}
		tick.Stop()
		errf.Close()
		restarts++
		// read new lines
		lastBegin, lastOut, finished := -1, -1, false
		f, err := os.Open(outPath)
		if err == nil {
			f.Seek(offset, 0)
			rd := bufio.NewReaderSize(f, 1<<20)
			for {
				line, err := rd.ReadBytes('\n')
				if len(line) > 0 && line[len(line)-1] == '\n' {
					offset += int64(len(line))
					var l wline
					if json.Unmarshal(line, &l) == nil {
						switch {
						case l.Begin != nil:
							lastBegin = *l.Begin
						case l.Out != nil:
							lastOut = l.Out.Idx
							if l.Race > 0 {
								if l.Out.Count == nil {
									l.Out.Count = map[string]int{}
								}
								l.Out.Count["race_log_bytes"] += l.Race
								l.Out.Sets = addSet(l.Out.Sets, "race_cases", fmt.Sprint(l.Out.Idx))
							}
							agg.add(l.Out)
						case l.Done:
							finished = true
						}
					}
				}
				if err != nil {
					break
				}
			}
			f.Close()
		}
		if finished {
			return
		}
		if lastBegin >= 0 && lastBegin != lastOut {
			// the worker died inside case lastBegin
			txt, _ := os.ReadFile(crashPath)
			if len(txt) == 0 {
				txt, _ = os.ReadFile(filepath.Join(work, fmt.Sprintf("stderr-%d-%d.txt", w, restarts-1)))
			}
			agg.mu.Lock()
			agg.Evals++
			agg.Crashes++
			if stalled {
				agg.Inconcl["worker stalled (wall-clock plumbing watchdog)"]++
				saveStall(agg, lastBegin, string(txt))
			} else {
				sig, detail := crashFromText(string(txt))
				agg.addFinding(lastBegin, Finding{Sig: "process-" + sig, Detail: detail})
			}
			agg.mu.Unlock()
			next = lastBegin + stride
		} else if lastOut >= 0 {
			next = lastOut + stride
		} else {
			// produced nothing at all: broken worker
			txt, _ := os.ReadFile(filepath.Join(work, fmt.Sprintf("stderr-%d-%d.txt", w, restarts-1)))
			agg.mu.Lock()
			agg.Inconcl["worker produced nothing: "+firstLine(string(txt))]++
			agg.mu.Unlock()
			return
		}
	}
}

func addSet(m map[string][]string, k, v string) map[string][]string {
	if m == nil {
		m = map[string][]string{}
	}
	m[k] = append(m[k], v)
	return m
}

func firstLine(s string) string {
	if i := strings.IndexByte(s, '\n'); i >= 0 {
		s = s[:i]
	}
	if len(s) > 200 {
		s = s[:200]
	}
	return s
}

func saveStall(agg *Agg, idx int, txt string) {
	d := filepath.Join(verifRoot(), "replays")
	os.MkdirAll(d, 0o755)
	os.WriteFile(filepath.Join(d, fmt.Sprintf("%s-stall-%d.txt", agg.Prop.ID, idx)), []byte(txt), 0o644)
}

func sigFile(s string) string {
	var sb strings.Builder
	for _, r := range s {
		switch {
		case r >= 'a' && r <= 'z', r >= 'A' && r <= 'Z', r >= '0' && r <= '9', r == '-', r == '_', r == '.':
			sb.WriteRune(r)
		default:
			sb.WriteByte('_')
		}
	}
	out := sb.String()
	if len(out) > 70 {
		out = out[:70]
	}
	h := fnv.New32a()
	h.Write([]byte(s))
	return fmt.Sprintf("%s-%08x", out, h.Sum32())
}

func finish(agg *Agg, stdout *os.File, t0 time.Time) int {
	p := agg.Prop
	known := LoadKnown()
	knownBySig := map[string]Known{}
	for _, k := range known {
		if k.Prop == p.ID && k.Status == "known" {
			knownBySig[k.Sig] = k
		}
	}
	// classify findings
	var sigs []string
	for s := range agg.Findings {
		sigs = append(sigs, s)
	}
	sort.Strings(sigs)
	violations := 0
	var viol []*FindingAgg
	observedKnown := map[string]int{}
	for _, s := range sigs {
		fa := agg.Findings[s]
		if k, ok := matchKnown(knownBySig, s); ok {
			fa.Known = true
			fa.What = k.What
			observedKnown[k.Sig] += fa.Count
			continue
		}
		violations += fa.Count
		viol = append(viol, fa)
	}
	for _, k := range known {
		if k.Prop == p.ID && k.Status == "known" {
			fmt.Fprintf(stdout, "KNOWN-FINDING: property=%s %s [sig=%s; observed %d times in this run]\n", p.ID, k.What, k.Sig, observedKnown[k.Sig])
		}
	}
	broken := ""
	if agg.Evals == 0 || agg.Events == 0 {
		broken = fmt.Sprintf("no observations (evaluations=%d events=%d)", agg.Evals, agg.Events)
	}
	// replay files
	rdir := filepath.Join(verifRoot(), "replays")
	os.MkdirAll(rdir, 0o755)
	for i, fa := range viol {
		path := filepath.Join(rdir, fmt.Sprintf("%s-%s.json", p.ID, sigFile(fa.Sig)))
		var raw json.RawMessage
		if fa.Idx >= 0 {
			c := p.Gen(CaseRNG(agg.Seed, fa.Idx), agg.Tier, fa.Idx)
			raw, _ = json.Marshal(c)
		} else {
			raw = json.RawMessage("null") // not attributable to one case (race reports)
		}
		r := Replay{Prop: p.ID, Tier: agg.Tier, Seed: agg.Seed, Idx: fa.Idx, Sig: fa.Sig, Detail: fa.Detail, Case: raw,
			Cmd: fmt.Sprintf("./check %s replay %s", p.ID, path)}
		b, _ := json.MarshalIndent(r, "", " ")
		os.WriteFile(path, b, 0o644)
		if i < 25 {
			fmt.Fprintf(stdout, "VIOLATION property=%s replay=%s\n", p.ID, path)
			fmt.Fprintf(stdout, "  sig=%s count=%d first_case=%d\n  %s\n", fa.Sig, fa.Count, fa.Idx, firstN(firstLine(fa.Detail), 300))
		}
	}
	// evidence
	cov := map[string]any{}
	cov["evaluations"] = agg.Evals
	cov["distinct_nontrivial"] = len(agg.Cov)
	cov["rule"] = p.Rule
	if len(agg.Samples) == 0 {
		agg.Samples = append(agg.Samples, "no sample recorded")
	}
	cov["samples"] = agg.Samples
	cov["events_observed"] = agg.Events
	cov["cases_planned"] = agg.N
	cov["worker_crashes"] = agg.Crashes
	cov["worker_recycles"] = agg.Recycles
	if len(agg.Inconcl) > 0 {
		cov["inconclusive"] = agg.Inconcl
	}
	if len(agg.Count) > 0 {
		cov["counters"] = agg.Count
	}
	for k, set := range agg.Sets {
		var vs []string
		for v := range set {
			vs = append(vs, v)
		}
		sort.Strings(vs)
		cov["n_"+k] = len(vs)
		if len(vs) > 400 {
			vs = vs[:400]
		}
		cov[k] = vs
	}
	// top coverage keys
	type kv struct {
		K string
		V int
	}
	var kvs []kv
	for k, v := range agg.Cov {
		kvs = append(kvs, kv{k, v})
	}
	sort.Slice(kvs, func(i, j int) bool { return kvs[i].K < kvs[j].K })
	var some []string
	step := 1
	if len(kvs) > 40 {
		step = len(kvs) / 40
	}
	for i := 0; i < len(kvs); i += step {
		some = append(some, fmt.Sprintf("%s x%d", kvs[i].K, kvs[i].V))
	}
	cov["coverage_key_examples"] = some
	var kf []map[string]any
	for _, s := range sigs {
		fa := agg.Findings[s]
		kf = append(kf, map[string]any{"sig": fa.Sig, "count": fa.Count, "known": fa.Known, "first_case": fa.Idx})
	}
	if len(kf) > 0 {
		cov["findings"] = kf
	}
	if p.Explain != "" {
		cov["explanation"] = p.Explain
	}
	if broken != "" {
		cov["broken"] = broken
	}
	ev := map[string]any{
		"property_id": p.ID,
		"tier":        agg.Tier,
		"seed":        agg.Seed,
		"level":       p.Level,
		"coverage":    cov,
		"assumptions": p.Assumptions,
		"wall_s":      time.Since(t0).Seconds(),
		"violations":  violations,
	}
	edir := filepath.Join(verifRoot(), "evidence")
	os.MkdirAll(edir, 0o755)
	b, _ := json.MarshalIndent(ev, "", " ")
	os.WriteFile(filepath.Join(edir, p.ID+".json"), b, 0o644)

	inc := 0
	for _, v := range agg.Inconcl {
		inc += v
	}
	fmt.Fprintf(stdout, "%s %s seed=%d: %d cases, %d observations, %d distinct non-trivial, %d inconclusive, %d violations (%d distinct), %d known-finding signatures observed, %.1fs\n",
		p.ID, agg.Tier, agg.Seed, agg.Evals, agg.Events, len(agg.Cov), inc, violations, len(viol), len(observedKnown), time.Since(t0).Seconds())
	if broken != "" {
		fmt.Fprintf(stdout, "BROKEN property=%s %s\n", p.ID, broken)
		return 2
	}
	if agg.Evals < agg.N {
		fmt.Fprintf(stdout, "BROKEN property=%s only %d of %d cases were run\n", p.ID, agg.Evals, agg.N)
		return 2
	}
	if len(viol) > 0 {
		return 1
	}
	return 0
}

// matchKnown: a finding is covered by a known finding iff signatures are equal, or the known
// signature ends with '*' and is a prefix.
func matchKnown(m map[string]Known, sig string) (Known, bool) {
	if k, ok := m[sig]; ok {
		return k, true
	}
	for ks, k := range m {
		if strings.HasSuffix(ks, "*") && strings.HasPrefix(sig, strings.TrimSuffix(ks, "*")) {
			return k, true
		}
	}
	return Known{}, false
}

func firstN(s string, n int) string {
	if len(s) > n {
		return s[:n] + "…"
	}
	return s
}
