// Package fw is the case/worker/driver framework shared by all property checks.
package fw

import (
	"encoding/json"
	"math/rand"
	"sort"

	"verif/sess"
)

// Finding is one observed violation (or inconclusive event) with a narrow, line-number-free
// signature chosen by the monitor.
type Finding struct {
	Sig    string `json:"sig"`
	Detail string `json:"detail"`
}

// Outcome is what running one case produced.
type Outcome struct {
	Idx      int                 `json:"idx"`
	Findings []Finding           `json:"findings,omitempty"` // violations
	Inconcl  []string            `json:"inconcl,omitempty"`  // reasons the case (or part of it) is inconclusive
	Cov      []string            `json:"cov,omitempty"`      // coverage keys: distinct non-trivial things observed
	Events   int                 `json:"events"`             // number of observations the monitors judged
	Count    map[string]int      `json:"count,omitempty"`    // extra counters, summed by the driver
	Sets     map[string][]string `json:"sets,omitempty"`     // extra named sets, united by the driver
	Sample   any                 `json:"sample,omitempty"`   // compact rendering of the case
	Recycle  bool                `json:"recycle,omitempty"`  // worker must be restarted after this case
	Trace    any                 `json:"trace,omitempty"`    // only in replay/verbose mode
}

// Env is what a property's Run gets from the worker.
type Env struct {
	T       *sess.Term
	Scratch string
	Verbose bool
	Tier    string
	Seed    int64
	Race    bool
}

// Prop is a registered property check.
type Prop struct {
	ID          string
	Level       string // evidence level
	Rule        string // how cases are generated; what makes one distinct and non-trivial
	Assumptions []string
	NeedsTerm   bool
	Race        bool // run with the race-detector build
	Workers     int  // 0 = default
	N           func(tier string) int
	// Gen is a pure function of (rng, tier, idx); rng is seeded from (seed, idx).
	Gen func(rng *rand.Rand, tier string, idx int) any
	// Run executes the case (the JSON form of what Gen returned) against the real code.
	Run func(env *Env, raw json.RawMessage) Outcome
	// Post, if set, is called by the driver with all outcomes for cross-case oracles.
	Post func(d *Agg)
	// Extra evidence
	Explain string
}

var registry = map[string]*Prop{}

// Register adds a property check.
func Register(p *Prop) { registry[p.ID] = p }

// Get finds a property check.
func Get(id string) *Prop { return registry[id] }

// IDs lists the registered ids.
func IDs() []string {
	var out []string
	for k := range registry {
		out = append(out, k)
	}
	sort.Strings(out)
	return out
}

// CaseRNG derives the per-case generator.
func CaseRNG(seed int64, idx int) *rand.Rand {
	return rand.New(rand.NewSource(seed*1000003 + int64(idx)*7919 + 17))
}

// Out is a small helper to build outcomes.
type Out struct{ O Outcome }

func (o *Out) Viol(sig, detail string) {
	o.O.Findings = append(o.O.Findings, Finding{Sig: sig, Detail: detail})
}
func (o *Out) Inc(reason string) { o.O.Inconcl = append(o.O.Inconcl, reason) }
func (o *Out) Cover(key string)  { o.O.Cov = append(o.O.Cov, key) }
func (o *Out) Add(counter string, n int) {
	if o.O.Count == nil {
		o.O.Count = map[string]int{}
	}
	o.O.Count[counter] += n
}
func (o *Out) Set(name, val string) {
	if o.O.Sets == nil {
		o.O.Sets = map[string][]string{}
	}
	for _, v := range o.O.Sets[name] {
		if v == val {
			return
		}
	}
	o.O.Sets[name] = append(o.O.Sets[name], val)
}
