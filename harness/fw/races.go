package fw

import (
	"fmt"
	"os"
	"path/filepath"
	"regexp"
	"sort"
	"strings"
)

// RaceReport is one parsed "WARNING: DATA RACE" block.
type RaceReport struct {
	Text    string
	Tops    [2]string // top-of-stack function with a /repo frame on both sides ("" if none)
	Entries [2]string // outermost /repo entry point on both sides
	Repo    bool      // at least one /repo frame in the two access stacks
}

var rxRaceFrame = regexp.MustCompile(`(?m)^  (\S+)\(\)\n\s+(/\S+?):\d+`)

func shortFn(fn string) string {
	fn = strings.TrimPrefix(fn, "github.com/reeflective/readline")
	fn = strings.TrimPrefix(fn, "/")
	fn = strings.TrimPrefix(fn, "internal/")
	return fn
}

// ParseRaces splits a race log into reports. The racing function of each access is the first
// frame of its stack that is not Go runtime/standard library code; it is a library function if
// its file is under /repo, a harness function otherwise.
func ParseRaces(txt string) []RaceReport {
	var out []RaceReport
	blocks := strings.Split(txt, "WARNING: DATA RACE")
	for _, b := range blocks[1:] {
		if i := strings.Index(b, "=================="); i >= 0 {
			b = b[:i]
		}
		r := RaceReport{Text: "WARNING: DATA RACE" + b}
		paras := strings.Split(strings.TrimLeft(b, "\n"), "\n\n")
		for k := 0; k < 2 && k < len(paras); k++ {
			frames := rxRaceFrame.FindAllStringSubmatch(paras[k], -1)
			for _, f := range frames {
				file := f[2]
				if strings.Contains(file, "/toolchain@") || strings.Contains(file, "/go/src/") || strings.HasPrefix(file, "/usr/") {
					continue // runtime / standard library
				}
				if r.Tops[k] == "" {
					if strings.HasPrefix(file, "/repo/") {
						r.Tops[k] = shortFn(f[1])
						r.Repo = true
					} else {
						r.Tops[k] = "harness"
					}
				}
				if strings.HasPrefix(file, "/repo/") {
					r.Entries[k] = shortFn(f[1])
				}
			}
		}
		out = append(out, r)
	}
	return out
}

// RaceSig is the signature of a report: the unordered pair of top-of-stack library functions.
func (r RaceReport) Sig() string {
	a, b := r.Tops[0], r.Tops[1]
	if a == "" {
		a = "harness"
	}
	if b == "" {
		b = "harness"
	}
	if a > b {
		a, b = b, a
	}
	return "race:" + a + "~" + b
}

// LoadRacePairs reads the committed calibration list: signatures of data races involving the key
// reader (the only part of the library with locking) observed on the unchanged tree.
func LoadRacePairs() map[string]bool {
	out := map[string]bool{}
	b, err := os.ReadFile(filepath.Join(verifRoot(), "race_known_functions.txt"))
	if err != nil {
		return out
	}
	for _, l := range strings.Split(string(b), "\n") {
		l = strings.TrimSpace(l)
		if l != "" && !strings.HasPrefix(l, "#") {
			out[l] = true
		}
	}
	return out
}

// isKeysFn: a function of the key reader (internal/core/keys*.go), the component whose shared
// state is meant to be protected by Keys.mutex.
func isKeysFn(fn string) bool {
	if strings.HasPrefix(fn, "core.(*Keys).") {
		return true
	}
	for _, p := range []string{"core.WaitAvailableKeys", "core.PopKey", "core.PeekKey", "core.MatchedKeys", "core.MatchedPrefix", "core.PopForce", "core.MacroKeys", "core.FlushUsed"} {
		if fn == p || strings.HasPrefix(fn, p+".") {
			return true
		}
	}
	return false
}

// Race reports are classed in two families:
//   - at least one racing function belongs to the key reader: signature race:keys|<a>~<b>; covered by the
//     known finding only if that exact pair is in the committed calibration list (so a lock removed from
//     the key reader, which exposes a new pair, is a violation);
//   - otherwise the race is on editor state that has no synchronisation at all (line, cursor, display and
//     completion engines): signature race:editor-state|<outermost entry points>, i.e. which goroutines race.
func collectRaces(agg *Agg, work string) {
	files, _ := filepath.Glob(filepath.Join(work, "race-*"))
	sort.Strings(files)
	known := LoadRacePairs()
	n := 0
	set := func(name, v string) {
		if agg.Sets[name] == nil {
			agg.Sets[name] = map[string]bool{}
		}
		agg.Sets[name][v] = true
	}
	for _, f := range files {
		b, err := os.ReadFile(f)
		if err != nil {
			continue
		}
		for _, r := range ParseRaces(string(b)) {
			n++
			if !r.Repo {
				agg.Inconcl["race report between harness functions only: "+r.Sig()]++
				continue
			}
			// both application print calls are one class of goroutine
			e0, e1 := strings.Replace(r.Entries[0], ".PrintTransientf", ".Printf", 1), strings.Replace(r.Entries[1], ".PrintTransientf", ".Printf", 1)
			if e0 == "" {
				e0 = "harness"
			}
			if e1 == "" {
				e1 = "harness"
			}
			if e0 > e1 {
				e0, e1 = e1, e0
			}
			set("race_entry_pairs", e0+" ~ "+e1)
			set("race_functions_seen", r.Tops[0])
			set("race_functions_seen", r.Tops[1])
			if isKeysFn(r.Tops[0]) || isKeysFn(r.Tops[1]) {
				sig := strings.Replace(r.Sig(), "race:", "race:keys|", 1)
				set("race_keys_pairs_seen", sig)
				if known[sig] {
					agg.addFinding(-1, Finding{Sig: "race:keys|pair-in-the-calibrated-list", Detail: firstN(r.Text, 3000)})
				} else {
					agg.addFinding(-1, Finding{Sig: sig, Detail: firstN(r.Text, 3000)})
				}
				continue
			}
			agg.addFinding(-1, Finding{Sig: "race:editor-state|" + e0 + "~" + e1, Detail: firstN(r.Text, 3000)})
		}
	}
	agg.Count["race_reports"] = n
	_ = fmt.Sprint
}
