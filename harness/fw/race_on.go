//go:build race

package fw

func init() { RaceEnabled = true }
