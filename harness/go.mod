module verif

go 1.23.6

require (
	github.com/reeflective/readline v0.0.0
	golang.org/x/sys v0.8.0
)

require github.com/rivo/uniseg v0.4.4 // indirect

replace github.com/reeflective/readline => /repo
