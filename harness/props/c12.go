package props

import (
	"encoding/json"
	"errors"
	"fmt"
	"math/rand"
	"os"
	"path/filepath"
	"strings"

	"github.com/reeflective/readline"
	"github.com/reeflective/readline/inputrc"

	"verif/fw"
)

// C12: parsing any inputrc text terminates without crashing. The worker process is the child
// process: a panic is recovered and reported, a fatal error (stack overflow) kills the worker and
// is attributed by the driver to the case that was running. Unbounded recursion through
// $include is decided logically: more than maxReadFile handler calls for one parse.

type c12Case struct {
	Text    string            `json:"-"`
	TextB64 []byte            `json:"text"` // raw bytes (may be invalid UTF-8)
	Files   map[string][]byte `json:"files,omitempty"`
	Strict  bool              `json:"strict"`
	Halt    bool              `json:"halt"`
	Env     rcEnv             `json:"env"`
	Kind    string            `json:"kind"`
}

const maxReadFile = 200000

var c12Fixtures []string

func loadFixtures() []string {
	if c12Fixtures != nil {
		return c12Fixtures
	}
	m, _ := filepath.Glob("/repo/inputrc/testdata/*.inputrc")
	for _, f := range m {
		b, err := os.ReadFile(f)
		if err != nil {
			continue
		}
		parts := strings.Split(string(b), "####----####")
		if len(parts) >= 2 {
			c12Fixtures = append(c12Fixtures, parts[1])
		}
	}
	if len(c12Fixtures) == 0 {
		c12Fixtures = []string{"set editing-mode vi\n\"\\C-x\": abort\n"}
	}
	return c12Fixtures
}

var c12Frags = []string{"set", "set ", "set name", "set name ", "set keymap", "set editing-mode", "set editing-mode x", "$if", "$if ", "$if mode=", "$else", "$endif", "$include", "$include ", "$include ~", "$include ~ # comment", "$include ~x", "$include ~/", "$include /", "$include .", "$unknown arg",
	"Control-", "C-M-", "Meta-", "M-", "\"\\C-", "\"\\M-\\C-", "\"\\M-\\C-\"", "\"\\C-\\M-", "\"\\", "\"", "'", "\"abc", "\"abc\":", "\"abc\": \"", "\"abc\": \"def", "x:", ":", "::", "\"\\x", "\"\\xg\"", "\"\\777\": a", "\"\\400\": a",
	"\"\\e[\": \"", "a\\", "\\", "set x \"", "set x 'y", "\x00", "set \x00 y", "\"\x00\": z", "\xff\xfe", "set a \xc3", "\u2028", "\r", "a\r\nb", "Control-Meta-", "control-control-x: y", "foo-x: y", "C-: y", "\"\\C-\": y", "\"\\M-\": y"}

func c12Gen(r *rand.Rand, tier string, idx int) any {
	c := c12Case{Files: map[string][]byte{}}
	c.Strict, c.Halt = r.Intn(2) == 0, r.Intn(2) == 0
	c.Env = rcEnv{Mode: pick(r, append([]string{""}, rcModes...)), Term: pick(r, append([]string{""}, rcTerms...)), App: pick(r, append([]string{""}, rcApps...))}
	var base string
	if r.Intn(3) == 0 {
		base = pick(r, loadFixtures())
	} else {
		prog, files := genProgram(r)
		base = renderNodes(prog, "", r)
		for f, body := range files {
			c.Files[f] = []byte(renderNodes(body, "", r))
		}
	}
	b := []byte(base)
	switch k := r.Intn(16); {
	case k == 0:
		c.Kind = "wellformed"
	case k < 4:
		c.Kind = "truncated"
		if len(b) > 0 {
			b = b[:r.Intn(len(b)+1)]
		}
	case k < 6:
		c.Kind = "byteflip"
		for i := 0; i < 1+r.Intn(4) && len(b) > 0; i++ {
			b[r.Intn(len(b))] = byte(r.Intn(256))
		}
	case k < 8:
		c.Kind = "insert-fragment"
		lines := strings.Split(string(b), "\n")
		for i := 0; i < 1+r.Intn(3); i++ {
			p := r.Intn(len(lines) + 1)
			lines = append(lines[:p], append([]string{pick(r, c12Frags)}, lines[p:]...)...)
		}
		b = []byte(strings.Join(lines, "\n"))
	case k < 9:
		c.Kind = "fragment-only"
		b = []byte(pick(r, c12Frags))
		if r.Intn(2) == 0 {
			b = append(b, '\n')
		}
	case k < 10:
		c.Kind = "line-truncated-at-every-offset"
		// one line of the base, cut at a PRNG-chosen offset, with and without newline
		lines := strings.Split(string(b), "\n")
		l := pick(r, lines)
		if len(l) > 0 {
			l = l[:r.Intn(len(l)+1)]
		}
		b = []byte(l)
	case k < 11:
		c.Kind = "deep-if"
		n := pick(r, []int{10, 1000, 10000})
		b = []byte(strings.Repeat("$if mode=emacs\n", n) + "\"x\": y\n" + strings.Repeat(pick(r, []string{"$endif\n", "$else\n", ""}), n))
	case k < 12:
		c.Kind = "huge-line"
		n := pick(r, []int{65535, 65536, 70000, 1 << 20})
		b = []byte(pick(r, []string{"set x ", "\"", "# ", "$if ", "Control-"}) + strings.Repeat(pick(r, []string{"a", "\\", "\"", "-"}), n) + "\n\"a\": b\n")
	case k < 14:
		c.Kind = "include-graph"
		g := r.Intn(6)
		if r.Intn(150) == 0 {
			g = 6 + r.Intn(2) // rare: each such parse reads the file 65535 times
		}
		if r.Intn(400) == 0 {
			g = 8 // rarer: stopped by the harness after 200000 reads
		}
		switch g {
		case 8: // a file including itself three or four times: 3^depth or 4^depth parses
			c.Kind = "include-graph-fan-out"
			b = []byte(strings.Repeat("$include /virtual/main\n", 3+r.Intn(2)) + "\"a\": b\n")
			c.Files["/virtual/main"] = b
		case 6: // a file including itself twice: 2^depth parses under a depth bound
			b = []byte("\"a\": b\n$include /virtual/main\nset x y\n$include /virtual/main\n")
			c.Files["/virtual/main"] = b
		case 7: // mutual inclusion, twice each way
			b = []byte("$include /virtual/a\n")
			c.Files["/virtual/a"] = []byte("$include /virtual/b\n\"a\": b\n$include /virtual/b\n")
			c.Files["/virtual/b"] = []byte("$include /virtual/a\nset x y\n$include /virtual/a\n")
		case 0: // self include
			b = []byte("$include /virtual/main\n\"a\": b\n")
			c.Files["/virtual/main"] = b
		case 1: // 2-cycle
			b = []byte("$include /virtual/a\n")
			c.Files["/virtual/a"] = []byte("\"a\": b\n$include /virtual/b\n")
			c.Files["/virtual/b"] = []byte("$include /virtual/a\nset x y\n")
		case 2: // chain
			b = []byte("$include /virtual/c1\n")
			for i := 1; i < 5; i++ {
				c.Files[fmt.Sprintf("/virtual/c%d", i)] = []byte(fmt.Sprintf("set v%d %d\n$include /virtual/c%d\n", i, i, i+1))
			}
		case 3: // diamond
			b = []byte("$include /virtual/l\n$include /virtual/r\n")
			c.Files["/virtual/l"] = []byte("$include /virtual/z\n")
			c.Files["/virtual/r"] = []byte("$include /virtual/z\n")
			c.Files["/virtual/z"] = []byte("\"z\": abort\n")
		case 4: // missing / erroring
			b = []byte("$include /virtual/missing\n$include /virtual/ERR\n\"a\": b\n")
		default: // cycle through an $if
			b = []byte("$if mode=emacs\n$include /virtual/main\n$endif\n")
			c.Files["/virtual/main"] = b
		}
	case k < 15:
		c.Kind = "crlf-and-nul"
		b = []byte(strings.ReplaceAll(string(b), "\n", pick(r, []string{"\r\n", "\r", "\n\x00", "\x00\n"})))
	default:
		c.Kind = "random-bytes"
		b = make([]byte, r.Intn(200))
		for i := range b {
			b[i] = byte(r.Intn(256))
		}
	}
	c.TextB64 = b
	return c
}

var errTooManyReads = errors.New("verif: more than 200000 ReadFile calls for one parse (unbounded $include recursion)")

func c12Run(env *fw.Env, raw json.RawMessage) fw.Outcome {
	var c c12Case
	unmarshal(raw, &c)
	var o fw.Out
	text := c.TextB64
	reads := 0
	mk := func() *inputrc.Config {
		cfg := inputrc.NewDefaultConfig()
		cfg.ReadFileFunc = func(name string) ([]byte, error) {
			reads++
			if reads > maxReadFile {
				return nil, errTooManyReads
			}
			if name == "/virtual/ERR" {
				return nil, errors.New("injected read error")
			}
			if b, ok := c.Files[name]; ok {
				return b, nil
			}
			return nil, os.ErrNotExist
		}
		return cfg
	}
	opts := []inputrc.Option{inputrc.WithStrict(c.Strict), inputrc.WithHaltOnErr(c.Halt), inputrc.WithMode(c.Env.Mode), inputrc.WithTerm(c.Env.Term), inputrc.WithApp(strings.ToLower(c.Env.App)), inputrc.WithName("verif")}
	run := func(what string, f func() error) {
		o.O.Events++
		var perr any
		var err error
		func() {
			defer func() { perr = recover() }()
			err = f()
		}()
		ctx := fmt.Sprintf("%s kind=%s strict=%v halt=%v env=%+v input=%s", what, c.Kind, c.Strict, c.Halt, c.Env, q(clampStr(string(text), 300)))
		switch {
		case perr != nil:
			o.Viol("parser-panic:"+panicClass(fmt.Sprint(perr)), ctx+fmt.Sprintf(" panic: %v", perr))
		case reads > maxReadFile || (err != nil && strings.Contains(err.Error(), "verif: more than")):
			sig := "unbounded-include-recursion"
			if c.Kind == "include-graph-fan-out" {
				sig = "include-fan-out|a-file-including-itself-three-or-four-times"
			}
			o.Viol(sig, ctx+fmt.Sprintf(" %d ReadFile calls and counting; files=%d", reads, len(c.Files)))
		}
		_ = err
	}
	run("ParseBytes", func() error { return inputrc.ParseBytes(text, mk(), opts...) })
	if len(o.O.Findings) == 0 {
		reads = 0
		run("Parser.Parse+Errs", func() error {
			p := inputrc.New(opts...)
			err := p.Parse(strings.NewReader(string(text)), mk())
			_ = p.Errs()
			return err
		})
	}
	// a handler made with NewConfig(): no function to read included files with
	if len(o.O.Findings) == 0 && strings.Contains(string(text), "$include") {
		run("ParseBytes(NewConfig without ReadFileFunc)", func() error {
			cfg := inputrc.NewConfig()
			cfg.ReadFileFunc = nil
			return inputrc.ParseBytes(text, cfg, opts...)
		})
		o.Add("parses_with_a_handler_without_readfile", 1)
	}
	// the real start-up path: an application creating a shell with this file as its inputrc
	if len(o.O.Findings) == 0 && len(text)%7 == 0 && len(c.Files) == 0 && len(text) < 100000 {
		dir, _ := os.MkdirTemp(env.Scratch, "c12-")
		rc := filepath.Join(dir, "inputrc")
		os.WriteFile(rc, text, 0o644)
		old := os.Getenv("INPUTRC")
		os.Setenv("INPUTRC", rc)
		run("NewShell(INPUTRC)", func() error {
			sh := readline.NewShell()
			_ = sh
			return nil
		})
		o.Add("startup_path_runs", 1)
		os.Setenv("INPUTRC", old)
		os.RemoveAll(dir)
	}
	o.Cover(fmt.Sprintf("%s|strict%v|halt%v|len%d", c.Kind, c.Strict, c.Halt, lenClass(len(text))))
	o.O.Sample = map[string]any{"kind": c.Kind, "input": q(clampStr(string(text), 120)), "files": len(c.Files)}
	return o.O
}

func lenClass(n int) int {
	switch {
	case n == 0:
		return 0
	case n < 20:
		return 1
	case n < 200:
		return 2
	case n < 5000:
		return 3
	default:
		return 4
	}
}

func panicClass(msg string) string {
	msg = strings.TrimPrefix(msg, "runtime error: ")
	var sb strings.Builder
	for _, r := range msg {
		switch {
		case r >= '0' && r <= '9':
			if s := sb.String(); len(s) == 0 || s[len(s)-1] != 'N' {
				sb.WriteByte('N')
			}
		case r == ' ':
			sb.WriteByte('_')
		default:
			sb.WriteRune(r)
		}
	}
	s := sb.String()
	if len(s) > 60 {
		s = s[:60]
	}
	return s
}

func init() {
	fw.Register(&fw.Prop{
		ID:    "C12",
		Level: "exploration",
		Rule: "inputs derived from grammar-generated programs (C13's generator) and the repository's fixtures by: truncation at a PRNG offset, byte flips, inserted lone directives/modifiers/unterminated quotes (50 fragments), single truncated lines, 10-10000-deep $if, 64 KiB-1 MiB lines, CR/LF/NUL mixes, random bytes, and include graphs (self, 2-cycle, chain, diamond, missing, erroring, cycle inside $if, a file including itself twice, two files including each other twice, a file including itself three or four times) served through ReadFileFunc; x strict x halt-on-error x (mode, term, app); each parsed in a worker process through ParseBytes and Parser.Parse (texts with $include also into a Config made by NewConfig() without a ReadFileFunc); oracle = returns without panic or fatal error and with at most 200000 ReadFile calls. " +
			"distinct non-trivial = distinct (mutation kind, strict, halt, length class) tuples",
		Assumptions: []string{"a fatal runtime error (stack overflow) kills the worker and is attributed by the driver to the case that was running", "more than 200000 ReadFile calls for one parse on <= 6 files is 'recurses without bound'"},
		N: func(tier string) int {
			if tier == "thorough" {
				return 1500000
			}
			return 60000
		},
		Gen: c12Gen,
		Run: c12Run,
	})
}
