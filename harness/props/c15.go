package props

import (
	"encoding/json"
	"fmt"
	"math/rand"
	"sort"
	"strings"

	"github.com/reeflective/readline"

	"verif/fw"
	"verif/sess"
)

// C15: menu completion cycles through every candidate exactly once.

type c15Case struct {
	shellCfg
	Values []string `json:"values"`
	Descs  []string `json:"descs,omitempty"` // same length as Values when described
	Tags   []string `json:"tags,omitempty"`  // same length as Values when multi-tag
	Dir    string   `json:"dir"`             // fwd | back | mixed
	Mixed  string   `json:"mixed,omitempty"` // for mixed: string of f/b
	Prefix string   `json:"prefix"`          // word typed before completing
	Tail   string   `json:"tail,omitempty"`  // text after the cursor (typed, then the cursor is moved back over it)
	// which keys invoke menu-complete / menu-complete-backward: "" = probe keys bound by the harness
	// (C-x f / C-x b); tab = Tab / Shift-Tab; ctrl = C-n / C-p; updown, leftright = the arrow keys that the
	// default menu keymap binds to the same two commands
	Keys string `json:"keys,omitempty"`
	// list: the candidates are displayed as a list (Completions.DisplayList), one per row
	// whatever their width, instead of a grid
	Display string `json:"display,omitempty"`
}

var c15KeySets = map[string][2]string{
	"": {"\x18f", "\x18b"}, "tab": {"\t", "\x1b[Z"}, "ctrl": {"\x0e", "\x10"}, "updown": {"\x1b[B", "\x1b[A"}, "leftright": {"\x1b[C", "\x1b[D"},
}

func c15Gen(r *rand.Rand, tier string, idx int) any {
	c := c15Case{}
	c.Mode = "emacs"
	c.W, c.H = 20+r.Intn(141), 6+r.Intn(35)
	c.Inputrc = "set history-autosuggest off\n"
	if r.Intn(5) == 0 {
		// the candidates are already generated (and shown) when the first completion key arrives
		c.Inputrc += "set autocomplete on\n"
	}
	n := 2 + r.Intn(59)
	if r.Intn(3) == 0 {
		n = 2 + r.Intn(8)
	}
	c.Prefix = pick(r, []string{"", "", "v", "val"})
	kind := pick(r, []string{"plain", "plain", "described", "aliased", "tagged", "long", "wide"})
	seen := map[string]bool{}
	for len(c.Values) < n {
		i := len(c.Values)
		var v string
		switch kind {
		case "long":
			v = fmt.Sprintf("%svalue-%d-%s", c.Prefix, i, strings.Repeat("x", r.Intn(30)))
		case "wide":
			v = fmt.Sprintf("%s値%d界", c.Prefix, i)
		default:
			v = fmt.Sprintf("%s%s%d", c.Prefix, pick(r, []string{"a", "bb", "ccc", "item", "x"}), i)
		}
		if seen[v] {
			continue
		}
		seen[v] = true
		c.Values = append(c.Values, v)
	}
	switch kind {
	case "described":
		for i := range c.Values {
			c.Descs = append(c.Descs, fmt.Sprintf("description number %d", i))
		}
	case "aliased":
		// 1-6 aliases per description
		d, left := 0, 0
		for range c.Values {
			if left == 0 {
				d++
				left = 1 + r.Intn(6)
			}
			left--
			c.Descs = append(c.Descs, fmt.Sprintf("shared description %d", d))
		}
	case "tagged":
		nt := 2 + r.Intn(3)
		for i := range c.Values {
			c.Tags = append(c.Tags, fmt.Sprintf("tag%d", i*nt/len(c.Values)))
		}
		if r.Intn(2) == 0 {
			for i := range c.Values {
				c.Descs = append(c.Descs, fmt.Sprintf("d%d", i/2))
			}
		}
	}
	if (kind == "plain" || kind == "described") && r.Intn(4) == 0 {
		c.Display = "list"
		if kind == "described" && r.Intn(2) == 0 {
			for i := range c.Descs {
				c.Descs[i] = fmt.Sprintf("d%d", i) // short entries: several would fit on a row
			}
		}
	}
	if r.Intn(3) == 0 {
		// the word is completed inside a line: the text after the cursor must stay where it is
		c.Tail = pick(r, []string{" push", " --verbose", "  x y", " 界 z", " t", "tail"})
	}
	if r.Intn(2) == 0 {
		c.Keys = pick(r, []string{"tab", "ctrl", "updown", "leftright"})
	}
	c.Dir = pick(r, []string{"fwd", "fwd", "back", "mixed"})
	if c.Dir == "mixed" {
		var sb strings.Builder
		for i := 0; i < 2*n+3; i++ {
			sb.WriteByte("ffb"[r.Intn(3)])
		}
		c.Mixed = sb.String()
	}
	return c
}

func c15Completer(c *c15Case) func([]rune, int) readline.Completions {
	inner := c15CompleterGrid(c)
	return func(line []rune, cur int) readline.Completions {
		comps := inner(line, cur)
		if c.Display == "list" {
			comps = comps.DisplayList()
		}
		return comps
	}
}

func c15CompleterGrid(c *c15Case) func([]rune, int) readline.Completions {
	return func(line []rune, cur int) readline.Completions {
		if len(c.Tags) == len(c.Values) && len(c.Tags) > 0 {
			var all readline.Completions
			byTag := map[string][]int{}
			var order []string
			for i, t := range c.Tags {
				if _, ok := byTag[t]; !ok {
					order = append(order, t)
				}
				byTag[t] = append(byTag[t], i)
			}
			for k, t := range order {
				var part readline.Completions
				if len(c.Descs) == len(c.Values) {
					var args []string
					for _, i := range byTag[t] {
						args = append(args, c.Values[i], c.Descs[i])
					}
					part = readline.CompleteValuesDescribed(args...)
				} else {
					var vs []string
					for _, i := range byTag[t] {
						vs = append(vs, c.Values[i])
					}
					part = readline.CompleteValues(vs...)
				}
				part = part.Tag(t)
				if k == 0 {
					all = part
				} else {
					all = all.Merge(part)
				}
			}
			return all
		}
		if len(c.Descs) == len(c.Values) && len(c.Descs) > 0 {
			var args []string
			for i, v := range c.Values {
				args = append(args, v, c.Descs[i])
			}
			return readline.CompleteValuesDescribed(args...)
		}
		return readline.CompleteValues(c.Values...)
	}
}

func c15Run(env *fw.Env, raw json.RawMessage) fw.Outcome {
	var c c15Case
	unmarshal(raw, &c)
	var o fw.Out
	cfg := c.cfg()
	cfg.Setup = func(s *sess.Session) {
		s.Sh.Completer = c15Completer(&c)
		s.Sh.Config.Bind("emacs", "\x18f", "menu-complete", false)
		s.Sh.Config.Bind("emacs", "\x18b", "menu-complete-backward", false)
		s.Sh.Config.Bind("menu-select", "\x18f", "menu-complete", false)
		s.Sh.Config.Bind("menu-select", "\x18b", "menu-complete-backward", false)
	}
	s := sess.New(env.T, env.Scratch, cfg)
	defer s.Close()
	N := len(c.Values)
	var dirs string
	switch c.Dir {
	case "fwd":
		dirs = strings.Repeat("f", 2*N+3)
	case "back":
		dirs = strings.Repeat("b", 2*N+3)
	default:
		dirs = c.Mixed
	}
	var plan []sess.Step
	L0 := "cmd " + c.Prefix
	if c.Tail == "" {
		plan = append(plan, sess.Step{W: L0, Tag: "type"})
	} else {
		plan = append(plan, sess.Step{W: L0 + c.Tail + strings.Repeat("\x02", len([]rune(c.Tail))), Tag: "type"})
	}
	for i, d := range dirs {
		k := c15KeySets[c.Keys][0]
		if d == 'b' {
			k = c15KeySets[c.Keys][1]
		}
		if i == 0 && c.Keys != "" {
			// the menu is opened with the probe keys: the other keys are only bound to the two
			// commands in the menu keymap
			k = c15KeySets[""][0]
			if d == 'b' {
				k = c15KeySets[""][1]
			}
		}
		plan = append(plan, sess.Step{W: k, Tag: string(d)})
	}
	res := s.Call(plan, steps("\x03", "\x03", "\r"))
	kind := "plain"
	switch {
	case len(c.Tags) > 0:
		kind = "tagged"
	case len(c.Descs) > 0 && c.Descs[0] != "" && strings.HasPrefix(c.Descs[0], "shared"):
		kind = "aliased"
	case len(c.Descs) > 0:
		kind = "described"
	}
	if c.Display != "" {
		kind += "-as-" + c.Display
	}
	ctx := fmt.Sprintf("N=%d kind=%s dir=%s W=%d H=%d prefix=%q text-after-cursor=%q keys=%q values=%q", N, kind, c.Dir, c.W, c.H, c.Prefix, c.Tail, c.Keys, clampList(c.Values, 8))
	if !stdFailures(&o, res, ctx) {
		o.O.Sample = map[string]any{"ctx": ctx}
		return o.O
	}
	after := map[int]*sess.Snap{}
	for i := range res.Waits {
		w := &res.Waits[i]
		if w.Kind == "main" {
			after[w.Step-1] = w
		}
	}
	pre := "cmd "
	var words []string
	for i := 1; i < len(plan); i++ {
		w, ok := after[i]
		if !ok {
			break
		}
		if !strings.HasPrefix(w.Line, pre) {
			o.Viol("text-before-the-word-changed", ctx+fmt.Sprintf(" press %d: buffer %q", i, w.Line))
			break
		}
		if !strings.HasSuffix(w.Line, c.Tail) || len(w.Line) < len(pre)+len(c.Tail) {
			o.Viol("text-after-the-cursor-changed", ctx+fmt.Sprintf(" press %d: buffer %q does not end with the text after the cursor %q", i, w.Line, c.Tail))
			break
		}
		words = append(words, strings.TrimSuffix(strings.TrimPrefix(w.Line, pre), c.Tail))
	}
	o.O.Events += len(words)
	if len(words) < len(dirs) {
		o.Inc("not every press was observed")
		return o.O
	}
	offered := map[string]bool{}
	for _, v := range c.Values {
		offered[v] = true
	}
	gridCls := fmt.Sprintf("%s|N%d|W%d|H%d", kind, bucket(N), c.W/40, c.H/12)
	if c.Keys != "" {
		gridCls += "|keys:" + c.Keys
		kind += "|keys:" + c.Keys
	}
	if c.Tail != "" {
		gridCls += "|inside-a-line"
		o.Add("cycles_inside_a_line_with_text_after_the_cursor", 1)
	}
	o.Cover(gridCls + "|" + c.Dir)
	for i, w := range words {
		if !offered[w] {
			o.Viol("inserted-word-is-not-an-offered-candidate|"+kind, ctx+fmt.Sprintf(" press %d inserted %q", i+1, w))
			o.O.Sample = map[string]any{"ctx": ctx}
			return o.O
		}
	}
	judged := c.Dir
	if c.Keys == "updown" || c.Keys == "leftright" {
		// The arrow keys run the same two commands, but the commands look at the key and move in
		// its direction inside the grid (down a column, along a row): where such a walk wraps is a
		// matter of layout (zsh's menu selection stays in the column), not of the statement, which
		// speaks of cycling. Arrow walks are a workload for the first oracle only.
		judged = "directional"
	}
	switch judged {
	case "directional":
		o.Add("directional_walks_with_the_arrow_keys", 1)
	case "fwd", "back":
		// every window of N consecutive presses is a permutation of the offered set, period N
		for i := 0; i+N <= len(words); i++ {
			win := map[string]bool{}
			for _, w := range words[i : i+N] {
				win[w] = true
			}
			if len(win) != N {
				// which candidates are skipped / repeated
				var missing []string
				for _, v := range c.Values {
					if !win[v] {
						missing = append(missing, v)
					}
				}
				sort.Strings(missing)
				o.Viol("cycle-does-not-visit-every-candidate-once|"+kind+"|"+c.Dir, ctx+fmt.Sprintf(" presses %d..%d visit %d distinct candidates of %d; not visited: %q; sequence: %q", i+1, i+N, len(win), N, clampList(missing, 6), clampList(words[i:i+N], 12)))
				break
			}
		}
		for i := 0; i+N < len(words); i++ {
			if words[i] != words[i+N] {
				o.Viol("cycle-is-not-periodic|"+kind+"|"+c.Dir, ctx+fmt.Sprintf(" press %d inserted %q, press %d inserted %q", i+1, words[i], i+1+N, words[i+N]))
				break
			}
		}
		o.Set("cycle_lengths_seen", fmt.Sprint(N))
	case "mixed":
		// the statement is about repeated presses in one direction; mixed walks are a workload
		// for the first oracle only (every inserted word is an offered value)
		o.Add("mixed_walks", 1)
	}
	if env.Verbose {
		o.O.Trace = words
	}
	o.O.Sample = map[string]any{"ctx": ctx, "first_words": clampList(words, 6)}
	return o.O
}

func bucket(n int) int {
	switch {
	case n <= 4:
		return n
	case n <= 10:
		return 10
	case n <= 30:
		return 30
	default:
		return 60
	}
}

func clampList(l []string, n int) []string {
	if len(l) > n {
		return append(append([]string{}, l[:n]...), fmt.Sprintf("… (%d more)", len(l)-n))
	}
	return l
}

func init() {
	fw.Register(&fw.Prop{
		ID:        "C15",
		Level:     "exploration",
		NeedsTerm: true,
		Rule: "one plain / described case in four displays the candidates as a list (DisplayList), half of the described ones with short descriptions; candidate sets of N = 2..60 distinct values (plain, described, aliased by shared descriptions with 1-6 aliases each, 2-4 tags, long values, double-width values) on terminals 20-160 x 6-40, autocomplete on in one case in five (the candidates are then generated before the first completion key) (menus taller than the screen); 2N+3 presses of menu-complete (forward), menu-complete-backward, or a random f/b walk; the inserted word after every press is extracted with C14's framing; oracle: every inserted word is an offered value, every window of N consecutive presses visits N distinct values, press i and press i+N insert the same value; mixed walks are only required to insert offered values. " +
			"distinct non-trivial = distinct (kind, N bucket, width/40, height/12, direction) tuples",
		Assumptions: []string{"menu-complete / menu-complete-backward are bound by name to C-x f / C-x b in the emacs and menu-select keymaps", "Emacs mode"},
		N: func(tier string) int {
			if tier == "thorough" {
				return 25000
			}
			return 1500
		},
		Gen: c15Gen,
		Run: c15Run,
	})
}
