package props

import (
	"encoding/json"
	"fmt"
	"math/rand"
	"regexp"
	"sort"
	"strings"

	"verif/fw"
	"verif/sess"
)

// C05: the outcome of a call depends only on the bytes typed, not on how they are cut into
// reads nor on whether they arrive while the editor queries the cursor position.

type c05Sched struct {
	Kind string `json:"kind"` // base | byte | whole | random | cpr
	Cuts []int  `json:"cuts,omitempty"`
	J    int    `json:"j,omitempty"`     // cpr: ordinal of the cursor query
	K    int    `json:"k,omitempty"`     // cpr: number of tokens delivered as type-ahead
	Ord  string `json:"order,omitempty"` // cpr: before | same-before | same-after | after
	// cpr: tokens holding a multi-byte character are delivered in two steps, cut after the
	// first byte of that character, so that type-ahead may end in the middle of a character
	Split bool `json:"split,omitempty"`
}

type c05Case struct {
	shellCfg
	Comp   bool        `json:"comp"`
	Steps  []sess.Step `json:"steps"` // the script, one token per step (raw bytes)
	Tokens []string    `json:"-"`
	Tags   []string    `json:"-"`
	Scheds []c05Sched  `json:"schedules"`
}

func c05Gen(r *rand.Rand, tier string, idx int) any {
	c := c05Case{}
	c.Mode = pick(r, []string{"emacs", "vi"})
	c.W, c.H = 60, 20
	c.Inputrc = "set history-autosuggest off\n"
	if r.Intn(3) == 0 {
		c.Inputrc += genInputrcVars(r)
	}
	if c.Mode == "vi" {
		// with convert-meta on, Latin-1 characters become ESC-prefixed keys inside the library:
		// in Vi modes their handling falls under the lone-ESC exclusion of the statement
		c.Inputrc += "set convert-meta off\n"
	}
	c.Hist = genHist(r, 5)
	c.Comp = r.Intn(2) == 0
	n := 2 + r.Intn(12)
	if tier == "thorough" && idx%4 == 0 {
		n = 1 + r.Intn(3) // short scripts: all cut sets
	}
	plan := genScript(r, c.Mode == "vi", n)
	if r.Intn(5) == 0 {
		// two multi-byte characters next to each other, so that two consecutive reads can both
		// end in the middle of a character
		at := r.Intn(len(plan) + 1)
		w := sess.Step{W: pick(r, []string{"€ł", "世界", "a€łb", "😀€", "éü"}), Tag: "word"}
		if c.Mode == "vi" {
			w.W = "i" + w.W + "\x1b"
			w.Tag = "viword"
		}
		plan = append(plan[:at], append([]sess.Step{w}, plan[at:]...)...)
	}
	if c.Mode == "emacs" && r.Intn(5) == 0 && len(plan) >= 2 {
		// part of the script is recorded as a keyboard macro and replayed: what is recorded
		// must not depend on where the reads were cut
		a := r.Intn(len(plan))
		b := a + 1 + r.Intn(len(plan)-a)
		var np []sess.Step
		np = append(np, plan[:a]...)
		np = append(np, sess.Step{W: "\x18(", Tag: "macro"})
		np = append(np, plan[a:b]...)
		np = append(np, sess.Step{W: "\x18)", Tag: "macro"}, sess.Step{W: "\x18e", Tag: "macro"})
		np = append(np, plan[b:]...)
		plan = np
	}
	// numeric arguments <= 999: digits are limited in digit tokens and words only (bound key
	// sequences that contain digits, e.g. ESC[1;5C, are left intact)
	digits := 0
	for i := range plan {
		switch plan[i].Tag {
		case "digits", "metadigits", "metaneg", "word":
			b := []byte(plan[i].W)
			for j := range b {
				if b[j] >= '0' && b[j] <= '9' {
					digits++
					if digits > 3 {
						b[j] = 'n'
					}
				}
			}
			plan[i].W = string(b)
		}
	}
	for _, st := range plan {
		if st.Tag == "highbytes" || st.Tag == "ctrl" || st.Tag == "misc" || (st.Tag == "csi" && !c05WellFormedCSI[st.W]) {
			// this property is about well-formed keyboard input (valid UTF-8, complete key
			// sequences); hostile byte garbage is C01's subject
			continue
		}
		if st.W == "" || rxCPRLike.MatchString(st.W) {
			// a typed byte string that looks like a cursor position report cannot be told apart
			// from the terminal's own reply: out of this property's scope
			continue
		}
		c.Steps = append(c.Steps, st)
		c.Tokens = append(c.Tokens, st.W)
		c.Tags = append(c.Tags, st.Tag)
	}
	script := strings.Join(c.Tokens, "")
	nb := len(script)
	c.Scheds = append(c.Scheds, c05Sched{Kind: "base"})
	all := func() []int {
		var cs []int
		for i := 1; i < nb; i++ {
			cs = append(cs, i)
		}
		return cs
	}
	c.Scheds = append(c.Scheds, c05Sched{Kind: "byte", Cuts: all()}, c05Sched{Kind: "whole"})
	// every read ends after the first byte of a multi-byte character (and the next one starts
	// with its remaining bytes), nowhere else
	var mid []int
	for i := 0; i+1 < nb; i++ {
		if script[i] >= 0xc0 {
			mid = append(mid, i+1)
		}
	}
	if len(mid) > 0 {
		c.Scheds = append(c.Scheds, c05Sched{Kind: "midchar", Cuts: mid})
		if len(mid) > 1 {
			// and after the second byte for characters of three bytes or more
			var mid2 []int
			for i := 0; i+2 < nb; i++ {
				if script[i] >= 0xe0 {
					mid2 = append(mid2, i+2)
				} else if script[i] >= 0xc0 {
					mid2 = append(mid2, i+1)
				}
			}
			c.Scheds = append(c.Scheds, c05Sched{Kind: "midchar", Cuts: mid2})
		}
	}
	nr := 2
	if tier == "thorough" {
		nr = 6
	}
	if tier == "thorough" && nb <= 8 && nb > 1 {
		// every cut set
		for m := 0; m < 1<<(nb-1); m++ {
			var cs []int
			for i := 1; i < nb; i++ {
				if m&(1<<(i-1)) != 0 {
					cs = append(cs, i)
				}
			}
			c.Scheds = append(c.Scheds, c05Sched{Kind: "random", Cuts: cs})
		}
	} else {
		for k := 0; k < nr; k++ {
			var cs []int
			p := 2 + r.Intn(6)
			for i := 1; i < nb; i++ {
				if r.Intn(p) == 0 {
					cs = append(cs, i)
				}
			}
			c.Scheds = append(c.Scheds, c05Sched{Kind: "random", Cuts: cs})
		}
	}
	nc := 3
	if tier == "thorough" {
		nc = 8
	}
	for k := 0; k < nc; k++ {
		c.Scheds = append(c.Scheds, c05Sched{Kind: "cpr", J: 1 + r.Intn(len(c.Tokens)+1), K: 1 + r.Intn(3), Ord: pick(r, []string{"before", "same-before", "same-after", "after"}), Split: r.Intn(3) == 0})
	}
	return c
}

// splitMultibyte delivers every token that holds a multi-byte character in two steps, cut after
// the first byte of its first such character.
func splitMultibyte(tokens []string) []string {
	var out []string
	for _, t := range tokens {
		cut := -1
		for i := 0; i < len(t); i++ {
			if t[i] >= 0xc0 && i+1 < len(t) {
				cut = i + 1
				break
			}
		}
		if cut < 0 {
			out = append(out, t)
			continue
		}
		out = append(out, t[:cut], t[cut:])
	}
	return out
}

// baseCuts are the token boundaries.
func baseCuts(tokens []string) []int {
	var cs []int
	off := 0
	for i, t := range tokens {
		off += len(t)
		if i < len(tokens)-1 {
			cs = append(cs, off)
		}
	}
	return cs
}

// viAdjust implements the statement's exclusion literally: in Vi modes the boundary directly
// after an ESC byte is kept exactly as in the base schedule (neither introduced nor removed).
func viAdjust(script string, cuts, base []int) []int {
	inBase := map[int]bool{}
	for _, c := range base {
		inBase[c] = true
	}
	set := map[int]bool{}
	for _, c := range cuts {
		set[c] = true
	}
	for i := 0; i < len(script)-1; i++ {
		if script[i] == 0x1b {
			if inBase[i+1] {
				set[i+1] = true
			} else {
				delete(set, i+1)
			}
		}
	}
	var out []int
	for c := range set {
		out = append(out, c)
	}
	sort.Ints(out)
	return out
}

func cutScript(script string, cuts []int) []string {
	var out []string
	prev := 0
	add := func(s string) {
		for len(s) > 250 {
			out = append(out, s[:250])
			s = s[250:]
		}
		if s != "" {
			out = append(out, s)
		}
	}
	for _, c := range cuts {
		if c > prev && c < len(script) {
			add(script[prev:c])
			prev = c
		}
	}
	add(script[prev:])
	return out
}

var c05WellFormedCSI = map[string]bool{"\x1b[A": true, "\x1b[B": true, "\x1b[C": true, "\x1b[D": true, "\x1b[H": true, "\x1b[F": true, "\x1b[3~": true, "\x1b[1;5C": true, "\x1b[1;5D": true, "\x1b[5~": true, "\x1b[6~": true, "\x1bOA": true, "\x1bOD": true, "\x1b[Z": true}

var rxCPRLike = regexp.MustCompile(`\x1b\[[0-9n]*;[0-9n]*R`)

type c05Outcome struct {
	Line     string
	Err      string
	Returned bool
	Reads    int
	Coupled  int
	From, N  int // cpr: index of the first script token delivered as type-ahead, and how many
	Res      *sess.Result
}

func c05RunOne(env *fw.Env, c *c05Case, chunks []string, sc *c05Sched) (*c05Outcome, *sess.Result) {
	cfg := c.cfg()
	cfg.Setup = func(s *sess.Session) {
		installEditorStubs(s.Dir, "missing")
		if c.Comp {
			s.Sh.Completer = c01CompleterOpt(len(c.Tokens), false)
		}
	}
	s := sess.New(env.T, env.Scratch, cfg)
	defer s.Close()
	out := &c05Outcome{}
	if sc != nil && sc.Kind == "cpr" {
		env.T.Lock()
		env.T.DSRHook = func(n int, reply []byte) bool {
			if n != sc.J {
				return false
			}
			// tokens are joined into one write; a boundary directly after an ESC byte is never
			// removed (stop after a token that ends with ESC)
			// Vi modes: the boundary directly after an ESC byte is kept as in the base schedule.
			// While the keys of a chunk that ends with ESC may still be waiting in the library's
			// buffer, type-ahead would be queued right behind that ESC: not delivered here.
			if c.Mode == "vi" && strings.HasSuffix(s.LastDelivered(), "\x1b") && len(s.LastDelivered()) > 1 {
				return false
			}
			var ta []byte
			out.From = s.StepsTaken()
			for i := 0; i < sc.K; i++ {
				sts := s.TakeSteps(1)
				if len(sts) == 0 {
					break
				}
				out.N++
				ta = append(ta, sts[0].W...)
				if strings.HasSuffix(sts[0].W, "\x1b") {
					break
				}
			}
			if len(ta) == 0 {
				return false
			}
			if len(ta) > 200 {
				ta = ta[:200]
			}
			out.Coupled = len(ta)
			switch sc.Ord {
			case "before":
				env.T.M.Write(ta)
				env.T.M.Write(reply)
			case "same-before":
				env.T.M.Write(append(append([]byte{}, ta...), reply...))
			case "same-after":
				env.T.M.Write(append(append([]byte{}, reply...), ta...))
			default:
				env.T.M.Write(reply)
				env.T.M.Write(ta)
			}
			return true
		}
		env.T.Unlock()
	}
	res := s.Call(steps(chunks...), retExit)
	env.T.Lock()
	env.T.DSRHook = nil
	env.T.Unlock()
	out.Line, out.Err, out.Returned, out.Reads = res.Line, res.Err, res.Returned, len(res.Reads)
	return out, res
}

func c05Run(env *fw.Env, raw json.RawMessage) fw.Outcome {
	var c c05Case
	unmarshal(raw, &c)
	c.Tokens, c.Tags = nil, nil
	for _, st := range c.Steps {
		c.Tokens = append(c.Tokens, st.W)
		c.Tags = append(c.Tags, st.Tag)
	}
	var o fw.Out
	script := strings.Join(c.Tokens, "")
	base := baseCuts(c.Tokens)
	vi := c.Mode == "vi"
	ctx := fmt.Sprintf("mode=%s script=%q", c.Mode, c.Tokens)
	bo, bres := c05RunOne(env, &c, c.Tokens, nil)
	if !stdFailures(&o, bres, ctx+" schedule=base") {
		o.O.Sample = map[string]any{"script": fmt.Sprintf("%q", c.Tokens)}
		return o.O
	}
	o.O.Events = 1
	distinct := map[string]bool{}
	for i := range c.Scheds {
		sc := &c.Scheds[i]
		if sc.Kind == "base" {
			continue
		}
		var chunks []string
		switch sc.Kind {
		case "cpr":
			chunks = c.Tokens
			if sc.Split {
				chunks = splitMultibyte(c.Tokens)
			}
		default:
			cuts := sc.Cuts
			if vi {
				cuts = viAdjust(script, cuts, base)
			}
			chunks = cutScript(script, cuts)
		}
		key := sc.Kind + fmt.Sprint(chunks, sc.J, sc.K, sc.Ord)
		if distinct[key] || (sc.Kind != "cpr" && fmt.Sprint(chunks) == fmt.Sprint(c.Tokens)) {
			continue
		}
		distinct[key] = true
		vo, vres := c05RunOne(env, &c, chunks, sc)
		if !stdFailures(&o, vres, ctx+fmt.Sprintf(" schedule=%s chunks=%q", sc.Kind, chunks)) {
			continue
		}
		o.O.Events++
		o.Add("reads_realised", vo.Reads)
		if sc.Kind == "cpr" {
			if vo.Coupled == 0 {
				o.Add("cpr_schedules_without_typeahead_left", 1)
				continue
			}
			o.Add("cpr_coupled_deliveries", 1)
			o.Cover(fmt.Sprintf("cpr|%s|k%d|%s", sc.Ord, sc.K, c.Mode))
		} else {
			o.Cover(fmt.Sprintf("%s|%dchunks|%s", sc.Kind, min(len(chunks), 12), c.Mode))
		}
		if vo.Line == bo.Line && vo.Err == bo.Err && vo.Returned == bo.Returned {
			continue
		}
		detail := ctx + fmt.Sprintf("\nbase:    one token per read -> line=%q err=%q returned=%v\nvariant: %s chunks=%q j=%d k=%d order=%s -> line=%q err=%q returned=%v", bo.Line, bo.Err, bo.Returned, sc.Kind, chunks, sc.J, sc.K, sc.Ord, vo.Line, vo.Err, vo.Returned)
		if sc.Kind == "cpr" {
			// Type-ahead joins script tokens into one read. If the same join delivered as a plain
			// read (no cursor report around it) gives the same different outcome, the cursor
			// report has nothing to do with it: the case is judged as that plain schedule.
			var eq []string
			if vo.N > 1 && vo.From >= 0 && vo.From+vo.N <= len(chunks) && vo.Coupled < 200 {
				eq = append(eq, chunks[:vo.From]...)
				eq = append(eq, strings.Join(chunks[vo.From:vo.From+vo.N], ""))
				eq = append(eq, chunks[vo.From+vo.N:]...)
			} else if sc.Split && vo.N == 1 {
				eq = append(eq, chunks...) // nothing joined: the plain schedule is the split one
			}
			explained := false
			if eq != nil {
				eo, eres := c05RunOne(env, &c, eq, nil)
				explained = eres.Panic == "" && !eres.Hung && eo.Line == vo.Line && eo.Err == vo.Err && eo.Returned == vo.Returned
			}
			if !explained {
				o.Viol(fmt.Sprintf("typeahead-with-cursor-report|%s|%s", sc.Ord, c.Mode), detail)
				continue
			}
			o.Add("cpr_differences_explained_by_the_joined_tokens_alone", 1)
			chunks = eq
			detail += fmt.Sprintf("\nthe same outcome is obtained without any cursor report by the plain schedule %q", eq)
		}
		// Is the difference due to boundaries directly after an ESC byte? Re-run with those
		// boundaries kept as in the base schedule (what the statement prescribes for Vi modes).
		if !vi {
			var vc []int
			off := 0
			for i, ch := range chunks {
				off += len(ch)
				if i < len(chunks)-1 {
					vc = append(vc, off)
				}
			}
			norm := cutScript(script, viAdjust(script, vc, base))
			if fmt.Sprint(norm) != fmt.Sprint(chunks) {
				no, nres := c05RunOne(env, &c, norm, nil)
				if nres.Panic == "" && !nres.Hung && no.Line == bo.Line && no.Err == bo.Err && no.Returned == bo.Returned {
					local := "no-local-keymap"
					for _, w := range bres.Waits {
						if w.Local != "" {
							local = "local-keymap-active"
						}
					}
					o.Viol("emacs-read-boundary-directly-after-ESC-changes-the-outcome|"+local, detail)
					continue
				}
				chunks = norm
			}
		}
		// localise: which single boundary change reproduces a difference?
		sig := c05Localise(env, &c, script, base, chunks, bo, bres, vi)
		o.Viol(sig, detail)
		if len(o.O.Findings) > 3 {
			break
		}
	}
	if env.Verbose {
		o.O.Trace = bres
	}
	o.O.Sample = map[string]any{"mode": c.Mode, "script": fmt.Sprintf("%q", c.Tokens), "schedules_run": len(distinct) + 1, "base_line": clampStr(bo.Line, 60), "base_err": bo.Err}
	return o.O
}

// c05Localise re-runs the script with single boundary changes relative to the base schedule
// and names the first one that changes the outcome.
func c05Localise(env *fw.Env, c *c05Case, script string, base []int, chunks []string, bo *c05Outcome, bres *sess.Result, vi bool) string {
	var vcuts []int
	off := 0
	for i, ch := range chunks {
		off += len(ch)
		if i < len(chunks)-1 {
			vcuts = append(vcuts, off)
		}
	}
	inB, inV := map[int]bool{}, map[int]bool{}
	for _, x := range base {
		inB[x] = true
	}
	for _, x := range vcuts {
		inV[x] = true
	}
	tokenOf := func(pos int) (int, bool) { // token index containing byte pos-1..pos boundary; atEnd
		off := 0
		for i, t := range c.Tokens {
			off += len(t)
			if pos <= off {
				return i, pos == off
			}
		}
		return len(c.Tokens) - 1, true
	}
	tries := 0
	for pos := 1; pos < len(script); pos++ {
		if inB[pos] == inV[pos] {
			continue
		}
		if tries >= 24 {
			break
		}
		tries++
		var cuts []int
		for _, x := range base {
			if x != pos {
				cuts = append(cuts, x)
			}
		}
		if !inB[pos] {
			cuts = append(cuts, pos)
			sort.Ints(cuts)
		}
		vo, vres := c05RunOne(env, c, cutScript(script, cuts), nil)
		if vres.Panic != "" || vres.Hung || vres.Storm {
			continue
		}
		if vo.Line == bo.Line && vo.Err == bo.Err && vo.Returned == bo.Returned {
			continue
		}
		ti, _ := tokenOf(pos)
		if inB[pos] {
			// merged the boundary after token ti
			kind, cmd := "main", ""
			if ti+1 < len(bres.Waits) {
				kind, cmd = bres.Waits[ti+1].Kind, bres.Waits[ti+1].Cmd
				if kind == "arg" && ti+2 < len(bres.Waits) {
					cmd = bres.Waits[ti+2].Cmd
				}
			}
			if kind == "arg" {
				return "argument-key-in-same-read-as-its-command|" + cmd
			}
			return "two-tokens-in-one-read|after:" + c.Tags[ti] + "|" + c.Mode
		}
		return "token-split-across-reads|" + c.Tags[ti] + "|" + c.Mode
	}
	return "several-boundaries-needed|" + c.Mode
}

func init() {
	fw.Register(&fw.Prop{
		ID:        "C05",
		Level:     "exploration",
		NeedsTerm: true,
		Rule: "for each PRNG-determined key script (C01's alphabet, numeric arguments <= 999), the base schedule (one token per read) and: per byte, whole script in one read, random cut sets (thorough: all 2^(n-1) cut sets of scripts <= 8 bytes), and cursor-report coupling (the next 1-3 tokens written before / in the same write as / after the terminal's reply to the j-th cursor query); oracle = every schedule returns the same (line, err) as the base schedule. In Vi modes the boundary directly after an ESC byte is kept as in the base schedule. A disagreement is localised to a single boundary change where possible. " +
			"distinct non-trivial = distinct (schedule kind, number of chunks or coupling order/size, mode) tuples actually realised",
		Assumptions: []string{"chunks <= 250 bytes so that one master write is one slave read", "editor commands resolve to a missing editor (deterministic error path)"},
		N: func(tier string) int {
			if tier == "thorough" {
				return 4000
			}
			return 400
		},
		Gen: c05Gen,
		Run: c05Run,
	})
}
