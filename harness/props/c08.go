package props

import (
	"encoding/json"
	"errors"
	"fmt"
	"math/rand"
	"os"
	"path/filepath"
	"strings"

	"github.com/reeflective/readline"

	"verif/fw"
	"verif/sess"
)

// C08: accepted lines are recorded in history exactly once.

type c08Call struct {
	Text    string `json:"text"`    // what is typed (chunks separated by \x00 are separate reads)
	Variant string `json:"variant"` // accept-line | accept-and-hold | multiline | operate-and-get-next | accept-and-infer-next-history | interrupt | eof
}

type c08Case struct {
	shellCfg
	Sources  []string   `json:"sources"` // memory | file | counting
	Prior    [][]string `json:"prior"`   // prior contents per source
	HistSize string     `json:"histsize"`
	Calls    []c08Call  `json:"calls"`
	// file sources: cut this many bytes off the end of the file after the prior entries were
	// written (a previous process died in the middle of its last append), then open it
	Torn []int `json:"torn,omitempty"`
}

type countSrc struct {
	items  []string
	writes int
}

func (c *countSrc) Write(s string) (int, error) {
	c.writes++
	c.items = append(c.items, s)
	return len(c.items), nil
}
func (c *countSrc) GetLine(i int) (string, error) {
	if i < 0 || i >= len(c.items) {
		return "", errors.New("out of range")
	}
	return c.items[i], nil
}
func (c *countSrc) Len() int          { return len(c.items) }
func (c *countSrc) Dump() interface{} { return c.items }

var c08Lines = []string{"echo one", "ls -la", "git status", "make test", "wörld 世界", "x", "a b  c", "echo \"q\"", "cd /tmp", "true"}

func c08Gen(r *rand.Rand, tier string, idx int) any {
	c := c08Case{}
	c.Mode = "emacs"
	c.W, c.H = 80, 24
	c.HistSize = pick(r, []string{"", "", "0", "3", "10", "1000"})
	c.Inputrc = "set history-autosuggest off\n"
	if c.HistSize != "" {
		c.Inputrc += "set history-size " + c.HistSize + "\n"
	}
	ns := 1 + r.Intn(3)
	kinds := []string{"memory", "file", "counting"}
	r.Shuffle(len(kinds), func(i, j int) { kinds[i], kinds[j] = kinds[j], kinds[i] })
	c.Sources = kinds[:ns]
	sizes := []int{0, 1, 2, 3, 4, 9, 10, 11}
	for range c.Sources {
		n := pick(r, sizes)
		if r.Intn(12) == 0 {
			// long histories, around the sizes at which a limit (given or not) would bite
			n = pick(r, []int{499, 500, 501, 999, 1000, 1001, 1500})
		}
		var p []string
		for i := 0; i < n; i++ {
			l := pick(r, c08Lines)
			if n > 20 {
				l = fmt.Sprintf("%s # %d", l, i)
			}
			if len(p) > 0 && p[len(p)-1] == l {
				l += " again"
			}
			p = append(p, l)
		}
		c.Prior = append(c.Prior, p)
		cut := 0
		if n > 0 && r.Intn(4) == 0 {
			cut = 1 + r.Intn(12)
		}
		c.Torn = append(c.Torn, cut)
	}
	nc := 1 + r.Intn(4)
	for i := 0; i < nc; i++ {
		var call c08Call
		call.Variant = pick(r, []string{"accept-line", "accept-line", "accept-line", "accept-and-hold", "multiline", "operate-and-get-next", "accept-and-infer-next-history", "interrupt", "eof"})
		switch k := r.Intn(10); {
		case k == 0:
			call.Text = pick(r, []string{"", " ", "   "})
		case k == 1 && len(c.Prior[0]) > 0:
			call.Text = c.Prior[0][len(c.Prior[0])-1] // duplicate of the newest entry of source 0
		case k == 2 && len(c.Prior[len(c.Prior)-1]) > 0:
			call.Text = c.Prior[len(c.Prior)-1][len(c.Prior[len(c.Prior)-1])-1]
		case k == 3 && len(c.Prior[0]) > 1:
			call.Text = c.Prior[0][0] // duplicate of an older entry
		case k == 4:
			call.Text = "  " + pick(r, c08Lines) + "  "
		default:
			call.Text = pick(r, c08Lines) + fmt.Sprintf(" %d", r.Intn(50))
		}
		if call.Variant == "eof" {
			call.Text = ""
		}
		c.Calls = append(c.Calls, call)
	}
	return c
}

func dumpSrc(h readline.History) []string {
	var out []string
	for i := 0; i < h.Len(); i++ {
		l, _ := h.GetLine(i)
		out = append(out, l)
	}
	return out
}

func c08Run(env *fw.Env, raw json.RawMessage) fw.Outcome {
	var c c08Case
	unmarshal(raw, &c)
	var o fw.Out
	var srcs []readline.History
	var counting *countSrc
	files := map[int]string{}
	cfg := c.cfg()
	cfg.Setup = func(s *sess.Session) {
		for i, kind := range c.Sources {
			var h readline.History
			switch kind {
			case "memory":
				h = readline.NewInMemoryHistory()
			case "file":
				path := filepath.Join(s.Dir, fmt.Sprintf("hist%d", i))
				h, _ = readline.NewHistoryFromFile(path)
				for _, l := range c.Prior[i] {
					h.Write(l)
				}
				if i < len(c.Torn) && c.Torn[i] > 0 {
					if st, err := os.Stat(path); err == nil && st.Size() > int64(c.Torn[i]) {
						os.Truncate(path, st.Size()-int64(c.Torn[i]))
					}
				}
				// the source as a new process finds it
				h, _ = readline.NewHistoryFromFile(path)
				files[i] = path
			default:
				counting = &countSrc{}
				h = counting
			}
			if kind != "file" {
				for _, l := range c.Prior[i] {
					h.Write(l)
				}
			}
			srcs = append(srcs, h)
			s.Sh.History.Add(fmt.Sprintf("src%d-%s", i, kind), h)
		}
		if counting != nil {
			counting.writes = 0
		}
		s.Sh.AcceptMultiline = func(l []rune) bool { return len(l) == 0 || l[len(l)-1] != '\\' }
		s.Sh.Config.Bind("emacs", "\x18\x08", "accept-and-hold", false)
		s.Sh.Config.Bind("emacs", "\x18\x0f", "operate-and-get-next", false)
		s.Sh.Config.Bind("emacs", "\x18\x09", "accept-and-infer-next-history", false)
	}
	s := sess.New(env.T, env.Scratch, cfg)
	defer s.Close()
	limit := -1
	if c.HistSize != "" && c.HistSize != "0" {
		fmt.Sscan(c.HistSize, &limit)
	}
	for ci, call := range c.Calls {
		var before [][]string
		for _, h := range srcs {
			before = append(before, dumpSrc(h))
		}
		w0 := 0
		if counting != nil {
			w0 = counting.writes
		}
		// a held / inferred line from the previous call is already in the buffer: clear it first
		plan := []sess.Step{{W: "\x01\x0b", Tag: "clear"}}
		typed := call.Text
		var exit []sess.Step
		switch call.Variant {
		case "accept-line":
			exit = steps("\r")
		case "accept-and-hold":
			exit = steps("\x18\x08")
		case "multiline":
			typed = strings.TrimRight(typed, " ") + "\\"
			plan = append(plan, sess.Step{W: typed}, sess.Step{W: "\r"}, sess.Step{W: "second part"})
			typed = ""
			exit = steps("\r")
		case "operate-and-get-next":
			exit = steps("\x18\x0f")
		case "accept-and-infer-next-history":
			exit = steps("\x18\x09")
		case "interrupt":
			exit = steps("\x03")
		case "eof":
			exit = steps("\x04")
		}
		if typed != "" {
			plan = append(plan, sess.Step{W: typed})
		}
		res := s.Call(plan, exit)
		ctx := fmt.Sprintf("call %d/%d variant=%s typed=%q history-size=%q sources=%v", ci+1, len(c.Calls), call.Variant, call.Text, c.HistSize, c.Sources)
		if !stdFailures(&o, res, ctx) {
			break
		}
		if !res.Returned {
			o.Inc("call did not return after its exit key")
			break
		}
		line := res.Line
		t := strings.TrimSpace(line)
		records := res.Err == "" && (call.Variant == "accept-line" || call.Variant == "accept-and-hold" || call.Variant == "multiline")
		for si, h := range srcs {
			o.O.Events++
			after := dumpSrc(h)
			b := before[si]
			newest := ""
			if len(b) > 0 {
				newest = strings.TrimSpace(b[len(b)-1])
			}
			unchanged := eqStrings(after, b)
			appendedOnce := len(after) == len(b)+1 && eqStrings(after[:len(b)], b) && strings.TrimSpace(after[len(after)-1]) == t
			kind := c.Sources[si]
			where := fmt.Sprintf(" source %d (%s): before=%d entries (newest %q) after=%d entries (newest %q); returned line=%q err=%q", si, kind, len(b), newest, len(after), lastOf(after), line, res.Err)
			lineClass := "plain"
			switch {
			case t == "":
				lineClass = "blank"
			case t == newest:
				lineClass = "dup-of-newest"
			case strings.Contains(line, "\n"):
				lineClass = "multiline"
			case line != t:
				lineClass = "padded"
			}
			sizeClass := "nolimit"
			if limit > 0 {
				if len(b) < limit {
					sizeClass = "below-limit"
				} else {
					sizeClass = "at-or-above-limit"
				}
			}
			o.Cover(fmt.Sprintf("%s|%s|%s|%s|n%d", call.Variant, kind, lineClass, sizeClass, len(c.Sources)))
			switch {
			case !records:
				if !unchanged {
					o.Viol("recorded-although-not-an-ordinary-accept|"+call.Variant, ctx+where)
				}
			case t == "" || t == newest:
				if !unchanged {
					o.Viol("blank-or-duplicate-recorded|"+lineClass, ctx+where)
				}
			case limit > 0 && len(b) >= limit:
				if !unchanged && !appendedOnce {
					o.Viol("history-changed-other-than-by-one-append|at-limit", ctx+where)
				}
			default:
				if !appendedOnce {
					sig := "accepted-line-not-recorded-exactly-once|" + sizeClass
					if unchanged {
						sig = "accepted-line-not-recorded|" + sizeClass
						if len(c.Sources) > 1 {
							sig += "|multi-source"
						}
					}
					o.Viol(sig, ctx+where)
				}
			}
		}
		// a file-backed source is its file: what a new process would load is what the source holds
		for si, path := range files {
			if re, err := readline.NewHistoryFromFile(path); err == nil {
				o.O.Events++
				o.Add("file_sources_reloaded_from_disk", 1)
				if onDisk, inMem := dumpSrc(re), dumpSrc(srcs[si]); !eqStrings(onDisk, inMem) {
					cls := "intact-file"
					if si < len(c.Torn) && c.Torn[si] > 0 {
						cls = "file-with-a-torn-last-record"
					}
					o.Viol("file-source-on-disk-differs-from-the-source|"+cls, ctx+fmt.Sprintf(" source %d: the open source holds %d entries (newest %q), the file reloaded %d entries (newest %q)", si, len(inMem), lastOf(inMem), len(onDisk), lastOf(onDisk)))
				}
			}
		}
		if counting != nil && counting.writes-w0 > 1 {
			o.Viol("source-written-more-than-once-per-accept", ctx+fmt.Sprintf(" Write called %d times", counting.writes-w0))
		}
		if len(o.O.Findings) > 0 {
			break
		}
	}
	o.O.Sample = map[string]any{"sources": c.Sources, "prior_sizes": fmt.Sprint(len(c.Prior[0])), "histsize": c.HistSize, "calls": c.Calls}
	return o.O
}

func lastOf(l []string) string {
	if len(l) == 0 {
		return ""
	}
	return l[len(l)-1]
}

func init() {
	fw.Register(&fw.Prop{
		ID:        "C08",
		Level:     "exploration",
		NeedsTerm: true,
		Rule: "1-3 bound history sources (in-memory, file-backed, a harness source counting Write calls) with prior contents of 0-11 entries, one in twelve of 499-1500 entries (one file source in four has its last record torn by 1-12 bytes, as after a crash in the middle of an append, and is opened as a new process finds it; after every call a file source is reloaded from disk and must equal the open source), history-size in {unset, 0, 3, 10, 1000} via INPUTRC, and 1-4 consecutive Readline calls on the same Shell; each call types a line (plain, padded, blank, duplicate of a source's newest/older entry, Unicode, multi-line through AcceptMultiline) and leaves through accept-line / accept-and-hold / multi-line accept / operate-and-get-next / accept-and-infer-next-history / C-c / C-d; oracle per source from the before/after contents: exactly one append of the trimmed line for ordinary accepts unless blank or equal to that source's newest entry; unchanged for errors and replaying accepts; with a limit N, len < N must record, len >= N either. " +
			"distinct non-trivial = distinct (variant, source kind, line class, size class, number of sources) tuples",
		Assumptions: []string{"Emacs mode", "a held or inferred line left in the buffer by the previous call is cleared (C-a C-k) before typing"},
		N: func(tier string) int {
			if tier == "thorough" {
				return 50000
			}
			return 2500
		},
		Gen: c08Gen,
		Run: c08Run,
	})
}
