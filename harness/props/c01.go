package props

import (
	"encoding/json"
	"fmt"
	"math/rand"
	"os"
	"path/filepath"
	"sort"
	"strconv"
	"strings"
	"sync"
	"unicode/utf8"

	"github.com/reeflective/readline"

	"verif/fw"
	"verif/sess"
)

// ---- shared script alphabet (also used by C05/C20) ----

var (
	defSeqOnce sync.Once
	defSeqs    map[string][]string // keymap -> bound sequences of the default configuration
)

// defaultSeqs enumerates the bound sequences of every keymap of the default configuration
// (INPUTRC pointing at an empty file), so that generators reach every bound command.
func defaultSeqs() map[string][]string {
	defSeqOnce.Do(func() {
		old, had := os.LookupEnv("INPUTRC")
		os.Setenv("INPUTRC", "/dev/null")
		sh := readline.NewShell()
		if had {
			os.Setenv("INPUTRC", old)
		} else {
			os.Unsetenv("INPUTRC")
		}
		defSeqs = map[string][]string{}
		for _, km := range allKeymaps {
			defSeqs[km] = boundSeqs(sh, km)
		}
	})
	return defSeqs
}

var (
	unboundOnce sync.Once
	unboundCmds []string // registered commands that no default keymap binds
	allCmds     []string // every registered command
)

// unboundCommands lists (sorted) the commands a Shell registers but binds to no key by default:
// a user configuration can bind any of them.
func unboundCommands() []string {
	unboundOnce.Do(func() {
		old, had := os.LookupEnv("INPUTRC")
		os.Setenv("INPUTRC", "/dev/null")
		sh := readline.NewShell()
		if had {
			os.Setenv("INPUTRC", old)
		} else {
			os.Unsetenv("INPUTRC")
		}
		bound := map[string]bool{}
		for _, m := range sh.Config.Binds {
			for _, b := range m {
				if !b.Macro {
					bound[b.Action] = true
				}
			}
		}
		for name := range sh.Keymap.Commands() {
			if !bound[name] {
				unboundCmds = append(unboundCmds, name)
			}
			allCmds = append(allCmds, name)
		}
		sort.Strings(unboundCmds)
		sort.Strings(allCmds)
	})
	return unboundCmds
}

// c01AllCommands lists (sorted) every command a Shell registers.
func c01AllCommands() []string {
	unboundCommands()
	return allCmds
}

const c01Probe = "\x18\x1a" // C-x C-z + letter: commands bound by the case

var c01Words = []string{"\u212a", "İ", "Ǆ", "foo", " ", "bar baz", "(a[b]{c})", "'q w'", "\"x\"", "https://ex.com/a?b=c", "0x1f", "true", "\\", "é", "世", "a", "-", "  ", "foo.bar/baz", "x=1;", "<>", "0", "9", "yes", "`", "$(x)", "\t"}

var c01CSI = []string{"\x1b[A", "\x1b[B", "\x1b[C", "\x1b[D", "\x1b[H", "\x1b[F", "\x1b[3~", "\x1b[1;5C", "\x1b[1;5D", "\x1b[5~", "\x1b[6~", "\x1bOA", "\x1bOD", "\x1b[Z",
	"\x1b[", "\x1b[1;", "\x1b[999;999", "\x1bO", "\x1b[200~", "\x1b[201~", "\x1b[1;5", "\x1b\x1b", "\x1b[5;7R", "\x1b[<0;1;1M", "\x1b]0;t\x07"}

var argCmdsVi = []string{"f", "F", "t", "T", "r", "\"", "m", "`", "q", "@", "ci", "di", "ya", "va", "cs", "ds", "ys"}
var argCmdsEmacs = []string{"\x11", "\x16", "\x1d", "\x1b\x1d", "\x18("}

type c01Case struct {
	shellCfg
	Comp    bool        `json:"comp"`
	Multi   bool        `json:"multi"`
	Editor  string      `json:"editor"`            // missing | ok | fail
	Every   bool        `json:"every,omitempty"`   // the every-command x argument family
	Bound   []string    `json:"bound,omitempty"`   // commands without a default binding, bound to C-x C-z a, b, ...
	Hilite  bool        `json:"hilite,omitempty"`  // the application sets a SyntaxHighlighter
	Prompts []string    `json:"prompts,omitempty"` // further prompts the application sets: right, tooltip, secondary, transient
	Srcs    int         `json:"srcs,omitempty"`    // further history sources added with History.Add
	Del     string      `json:"del,omitempty"`     // what the application removes before a second call: first, last, middle, all
	Plan2   []sess.Step `json:"plan2,omitempty"`   // the keys of that second call
	Plan    []sess.Step `json:"plan"`
	Exit    []sess.Step `json:"exit"`
	ExitTag string      `json:"exit_tag"`
}

var c01Vars = []string{"autopairs", "autocomplete", "history-autosuggest", "blink-matching-paren", "show-mode-in-prompt", "menu-complete-display-prefix", "convert-meta", "completion-ignore-case", "history-preserve-point", "revert-all-at-newline", "prompt-transient", "multiline-column", "multiline-column-numbered", "usage-hint-always", "isearch-trigger-external", "input-meta", "output-meta", "skip-completed-text", "show-all-if-ambiguous", "enable-bracketed-paste", "search-ignore-case"}

func genInputrcVars(r *rand.Rand) string {
	var sb strings.Builder
	for _, v := range c01Vars {
		if r.Intn(5) == 0 {
			sb.WriteString("set " + v + " " + pick(r, []string{"on", "off"}) + "\n")
		}
	}
	if r.Intn(6) == 0 {
		sb.WriteString("set history-size " + pick(r, []string{"0", "3", "10", "100"}) + "\n")
	}
	if r.Intn(8) == 0 {
		sb.WriteString("set comment-begin " + pick(r, []string{"#", "//", "-- "}) + "\n")
	}
	if r.Intn(8) == 0 {
		sb.WriteString("set cursor-" + pick(r, []string{"emacs", "viins", "vicmd"}) + " " + pick(r, []string{"block", "beam", "underline", "blinking-block"}) + "\n")
	}
	return sb.String()
}

// genToken returns one script token: some bytes delivered together.
func genToken(r *rand.Rand, vi bool) (tok string, tag string) {
	seqs := defaultSeqs()
	switch k := r.Intn(20); {
	case k < 9:
		kms := []string{"emacs", "emacs", "emacs-meta", "emacs-ctlx", "menu-select", "isearch"}
		if vi {
			kms = []string{"vi-insert", "vi-command", "vi-command", "vi-command", "vi-opp", "vi-visual", "menu-select", "isearch"}
		}
		km := pick(r, kms)
		if len(seqs[km]) == 0 {
			return "x", "char"
		}
		return keyBytes(pick(r, seqs[km])), "bind:" + km
	case k < 12:
		return pick(r, c01Words), "word"
	case k < 13:
		return string([]byte{byte(r.Intn(32))}), "ctrl"
	case k < 14:
		return strconv.Itoa(r.Intn(1000)), "digits"
	case k < 15:
		if r.Intn(2) == 0 {
			return "\x1b" + strconv.Itoa(r.Intn(100)), "metadigits"
		}
		return "\x1b-" + strconv.Itoa(r.Intn(30)), "metaneg"
	case k < 16:
		n := 1 + r.Intn(3)
		b := make([]byte, n)
		for i := range b {
			b[i] = byte(128 + r.Intn(128))
		}
		return string(b), "highbytes"
	case k < 18:
		return pick(r, c01CSI), "csi"
	case k < 19:
		// the argument key: printable ASCII (any ASCII in Emacs), or a multi-byte character
		if r.Intn(5) == 0 {
			arg := pick(r, []string{"é", "世", "😀", "ü"})
			if vi {
				return pick(r, argCmdsVi) + arg, "argcmd"
			}
			return pick(r, argCmdsEmacs) + arg, "argcmd"
		}
		if vi {
			return pick(r, argCmdsVi) + string(rune(32+r.Intn(95))), "argcmd"
		}
		return pick(r, argCmdsEmacs) + string(rune(r.Intn(128))), "argcmd"
	default:
		if vi {
			return "\x1b", "esc"
		}
		return pick(r, []string{"\x7f", "\x1b\x7f", "\x00"}), "misc"
	}
}

func genScript(r *rand.Rand, vi bool, n int) []sess.Step {
	var plan []sess.Step
	prevDigits := false
	for i := 0; i < n; i++ {
		t, tag := genToken(r, vi)
		// keep numeric arguments within the stated bound (<= 3 typed digits in a row)
		isDig := tag == "digits" || tag == "metadigits" || tag == "metaneg"
		if isDig && prevDigits {
			t, tag = "x", "word"
		}
		prevDigits = isDig
		if tag == "argcmd" && r.Intn(2) == 0 && len(t) > 1 {
			// argument key (the last character) in a separate read
			cut := len(t) - 1
			for cut > 0 && !utf8.RuneStart(t[cut]) {
				cut--
			}
			if cut > 0 {
				plan = append(plan, sess.Step{W: t[:cut], Tag: "argcmd"}, sess.Step{W: t[cut:], Tag: "arg"})
				continue
			}
		}
		plan = append(plan, sess.Step{W: t, Tag: tag})
	}
	return plan
}

// limitDigits keeps at most max digit characters in a script, so that no numeric argument can
// exceed 10^max-1: a command repeating a failing key read that many times is finite, and the
// read-storm bound (sess.MaxFaultReads) stays above it.
func limitDigits(plan []sess.Step, max int) []sess.Step {
	n := 0
	for i := range plan {
		b := []byte(plan[i].W)
		for j := range b {
			if b[j] >= '0' && b[j] <= '9' {
				n++
				if n > max {
					b[j] = 'n'
				}
			}
		}
		plan[i].W = string(b)
	}
	return plan
}

// ---- directed family: every operator/object/argument at every cursor position of shaped buffers ----

var c01Shapes = []string{"", "a", "ab", "foo bar baz", "echo \"hello", "echo hello\" x", "'q w' \"x\"", "(a[b]{c})", "(unclosed [x", "x) y] z}", "a\"b\"c\"d", "<tag>x</tag>",
	"`cmd` $(x)", "a\nb", "x\n\ny", "世 é x", "\\", "  ", "  lead", "trail  ", "a.b,c;d", "if (x) { y }", "''", "\"\"", "()", "a'b", "x = [1, 2"}

var c01ArgChars = []rune("\"'`()[]{}<>bBwWps ,.")

func c01Arg(r *rand.Rand, buf string) string {
	rs := []rune(buf)
	var present []rune // delimiters that occur in the buffer, and their counterparts
	for _, c := range rs {
		if i := strings.IndexRune("\"'`()[]{}<>", c); i >= 0 {
			present = append(present, c)
			if j := strings.IndexRune("()[]{}<>", c); j >= 0 {
				present = append(present, rune("()[]{}<>"[j^1]))
			}
		}
	}
	switch k := r.Intn(10); {
	case k < 5 && len(present) > 0:
		return string(pick(r, present))
	case k < 7 || len(rs) == 0:
		return string(pick(r, c01ArgChars))
	case k < 9:
		return string(pick(r, rs))
	default:
		return string(rune(32 + r.Intn(95)))
	}
}

var c01ViOps = []string{"c", "d", "y", "v", "g~", "gu", "gU", "", "", "cs", "ds", "ys", "vS"}
var c01ViMotions = []string{"h", "l", "w", "b", "e", "W", "B", "E", "0", "$", "^", "%", "ge", "gE", "j", "k", "G", "gg", ";", ",", "|", "-", "+"}

// c01ViObject returns the keys of one motion or text object, one string per key read.
func c01ViObject(r *rand.Rand, buf string) []string {
	switch r.Intn(4) {
	case 0:
		return []string{pick(r, []string{"f", "F", "t", "T"}), c01Arg(r, buf)}
	case 1:
		return []string{pick(r, []string{"i", "a"}), c01Arg(r, buf)}
	case 2:
		seqs := defaultSeqs()["vi-opp"]
		if len(seqs) > 0 {
			return []string{keyBytes(pick(r, seqs))}
		}
		fallthrough
	default:
		return []string{pick(r, c01ViMotions)}
	}
}

func c01GenDirected(r *rand.Rand, c *c01Case, idx int) {
	buf := c01Shapes[(idx/2)%len(c01Shapes)]
	nb := len([]rune(buf))
	p := r.Intn(nb + 1)
	var keys []string // one entry per group of bytes that belongs together
	if c.Mode == "vi" {
		if buf != "" {
			c.Plan = append(c.Plan, sess.Step{W: buf, Tag: "type"})
		}
		c.Plan = append(c.Plan, sess.Step{W: "\x1b", Tag: "esc"}, sess.Step{W: "0", Tag: "bol"})
		for i := 0; i < p; i++ {
			c.Plan = append(c.Plan, sess.Step{W: pick(r, []string{"l", "l", "l", " "}), Tag: "move"})
		}
		for n := 1 + r.Intn(2); n > 0; n-- {
			if r.Intn(4) == 0 {
				keys = append(keys, strconv.Itoa(1+r.Intn(12)))
			}
			switch op := pick(r, c01ViOps); op {
			case "cs":
				keys = append(keys, "cs", c01Arg(r, buf), c01Arg(r, buf))
			case "ds":
				keys = append(keys, "ds", c01Arg(r, buf))
			case "ys":
				keys = append(keys, "ys")
				keys = append(keys, c01ViObject(r, buf)...)
				keys = append(keys, c01Arg(r, buf))
			case "vS":
				keys = append(keys, "v")
				keys = append(keys, c01ViObject(r, buf)...)
				keys = append(keys, "S", c01Arg(r, buf))
			case "":
				seq := keyBytes(pick(r, defaultSeqs()["vi-command"]))
				keys = append(keys, seq)
				for _, a := range argCmdsVi {
					if seq == a {
						keys = append(keys, c01Arg(r, buf))
					}
				}
			default:
				keys = append(keys, op)
				if r.Intn(5) == 0 {
					keys = append(keys, strconv.Itoa(1+r.Intn(5)))
				}
				keys = append(keys, c01ViObject(r, buf)...)
				if op == "v" {
					keys = append(keys, pick(r, []string{"d", "c", "y", "x", "~", "u", "U", "o", "\x1b", "p", "S\"", "J"}))
				}
			}
		}
	} else {
		if buf != "" {
			c.Plan = append(c.Plan, sess.Step{W: buf, Tag: "type"})
		}
		for i := 0; i < nb-p; i++ {
			c.Plan = append(c.Plan, sess.Step{W: "\x02", Tag: "move"})
		}
		for n := 1 + r.Intn(2); n > 0; n-- {
			if r.Intn(4) == 0 {
				keys = append(keys, pick(r, []string{"\x1b2", "\x1b-", "\x1b12", "\x1b-3", "\x1b0"}))
			}
			km := pick(r, []string{"emacs", "emacs", "emacs-meta", "emacs-ctlx"})
			seq := keyBytes(pick(r, defaultSeqs()[km]))
			switch km {
			case "emacs-meta":
				seq = "\x1b" + seq
			case "emacs-ctlx":
				seq = "\x18" + seq
			}
			keys = append(keys, seq)
			for _, a := range argCmdsEmacs {
				if seq == a {
					keys = append(keys, c01Arg(r, buf))
				}
			}
		}
	}
	if r.Intn(2) == 0 {
		c.Plan = append(c.Plan, sess.Step{W: strings.Join(keys, ""), Tag: "directed"})
	} else {
		for _, k := range keys {
			c.Plan = append(c.Plan, sess.Step{W: k, Tag: "directed"})
		}
	}
	c.Plan = append(c.Plan, genScript(r, c.Mode == "vi", r.Intn(4))...)
}

func c01Gen(r *rand.Rand, tier string, idx int) any {
	c := c01Case{}
	c.Mode = pick(r, []string{"emacs", "vi"})
	c.Inputrc = genInputrcVars(r)
	c.W, c.H = 8+r.Intn(113), 5+r.Intn(36)
	if r.Intn(3) == 0 {
		c.W, c.H = 40, 12
	}
	c.Hist = genHist(r, 6)
	c.Comp = r.Intn(2) == 0
	c.Multi = r.Intn(3) == 0
	c.Editor = pick(r, []string{"missing", "ok", "fail"})
	n := 3 + r.Intn(40)
	if r.Intn(10) == 0 {
		n = r.Intn(4)
	}
	// numeric arguments stay within the stated bound: at most 4 digit characters per script
	if cmds := c01AllCommands(); idx%4 == 3 && len(cmds) > 0 {
		// every registered command x a hostile numeric argument, enumerated: the command is bound
		// to a probe key by name and run on a shaped buffer, with a history whose newest line has
		// two words (commands that index words, lines or entries by their argument)
		k := idx / 4
		c.Mode = pick(r, []string{"emacs", "emacs", "vi"})
		c.Hist = []string{"one", "two words"}
		c.Bound = []string{cmds[k%len(cmds)]}
		args := []string{"\x1b-\x1b9", "\x1b-\x1b2", "\x1b0", "\x1b9\x1b9", "\x1b-", "\x1b-\x1b3", "\x1b2", "\x1b9", "\x1b-\x1b9\x1b9", ""}
		arg := args[(k/len(cmds))%len(args)]
		buf := pick(r, c01Shapes)
		if buf != "" {
			c.Plan = append(c.Plan, sess.Step{W: buf, Tag: "type"})
		}
		for i, n := 0, r.Intn(len([]rune(buf))+1); i < n; i++ {
			c.Plan = append(c.Plan, sess.Step{W: "\x02", Tag: "move"})
		}
		if c.Mode == "vi" {
			c.Plan = append(c.Plan, sess.Step{W: "\x1b", Tag: "esc"})
			arg = strings.NewReplacer("\x1b-", "", "\x1b", "").Replace(arg) // a count: digits
			if arg == "0" {
				arg = ""
			}
		}
		if arg != "" {
			c.Plan = append(c.Plan, sess.Step{W: arg, Tag: "numeric-arg"})
		}
		c.Plan = append(c.Plan, sess.Step{W: c01Probe + "a", Tag: "every-command"})
		if r.Intn(3) == 0 {
			c.Plan = append(c.Plan, sess.Step{W: c01Arg(r, buf), Tag: "arg"})
		}
		c.Plan = append(c.Plan, genScript(r, c.Mode == "vi", r.Intn(3))...)
		c.Plan = limitDigits(c.Plan, 6)
		c.Every = true
	} else if idx%2 == 1 {
		c01GenDirected(r, &c, idx)
		c.Plan = limitDigits(c.Plan, 4)
	} else {
		c.Plan = limitDigits(genScript(r, c.Mode == "vi", n), 4)
	}
	c.Hilite = r.Intn(5) == 0
	if r.Intn(25) == 0 {
		// case-insensitive completion of characters whose lower case has another length
		c.Inputrc += "set completion-ignore-case on\n"
		c.Comp = true
		pre := []sess.Step{{W: pick(r, []string{"\u212a", "İ", "Ǆ", "\u212ab"}), Tag: "case-folding-text"}, {W: "\t", Tag: "complete"}, {W: "\t", Tag: "complete"}}
		if c.Mode == "vi" {
			pre = append([]sess.Step{{W: "i", Tag: "insert-mode"}}, pre...)
		}
		at := r.Intn(len(c.Plan) + 1)
		c.Plan = append(c.Plan[:at], append(pre, c.Plan[at:]...)...)
	}
	if r.Intn(4) == 0 {
		for _, p := range []string{"right", "tooltip", "secondary", "transient"} {
			if r.Intn(2) == 0 {
				c.Prompts = append(c.Prompts, p)
			}
		}
		if r.Intn(2) == 0 {
			// a line that reaches the right-hand side of the terminal
			at := r.Intn(len(c.Plan) + 1)
			st := sess.Step{W: strings.Repeat(pick(r, []string{"x", "ab ", "é"}), 1+r.Intn(c.W+4)), Tag: "long-text"}
			c.Plan = append(c.Plan[:at], append([]sess.Step{st}, c.Plan[at:]...)...)
		}
	}
	if r.Intn(6) == 0 {
		// several history sources, the user cycling through them, the application removing
		// some between two calls
		c.Srcs = 2 + r.Intn(3)
		for i, n := 0, r.Intn(4); i < n; i++ {
			at := r.Intn(len(c.Plan) + 1)
			st := sess.Step{W: pick(r, []string{"\x12\x12\x07", "\x12\x12\x12\x07", "\x12\x12"}), Tag: "next-history-source"}
			c.Plan = append(c.Plan[:at], append([]sess.Step{st}, c.Plan[at:]...)...)
		}
		c.Del = pick(r, []string{"first", "last", "middle", "all", "first", "all"})
		c.Plan2 = limitDigits(genScript(r, c.Mode == "vi", 1+r.Intn(6)), 2)
	}
	if ub := unboundCommands(); len(ub) > 0 && r.Intn(3) == 0 {
		// commands no default keymap binds: a user configuration can, so they are bound here
		for i, n := 0, 1+r.Intn(6); i < n; i++ {
			if r.Intn(3) == 0 {
				// (or any command at all: some default sequences, like Meta-Control ones, are
				// out of reach of a terminal, and users rebind)
				c.Bound = append(c.Bound, pick(r, allCmds))
			} else {
				c.Bound = append(c.Bound, pick(r, ub))
			}
		}
		for i, n := 0, 1+r.Intn(2*len(c.Bound)); i < n; i++ {
			st := sess.Step{W: c01Probe + string(rune('a'+r.Intn(len(c.Bound)))), Tag: "unbound-by-default"}
			at := r.Intn(len(c.Plan) + 1)
			c.Plan = append(c.Plan[:at], append([]sess.Step{st}, c.Plan[at:]...)...)
			if c.Mode == "emacs" && r.Intn(4) == 0 {
				// with a negative, zero or small numeric argument
				arg := sess.Step{W: pick(r, []string{"\x1b-", "\x1b0", "\x1b-\x1b2", "\x1b3", "\x1b-\x1b9"}), Tag: "numeric-arg"}
				c.Plan = append(c.Plan[:at], append([]sess.Step{arg}, c.Plan[at:]...)...)
				at++
			}
			if r.Intn(3) == 0 {
				// some of them read an argument key
				arg := sess.Step{W: string(rune(32 + r.Intn(95))), Tag: "arg"}
				c.Plan = append(c.Plan[:at+1], append([]sess.Step{arg}, c.Plan[at+1:]...)...)
			}
		}
	}
	c.ExitTag = pick(r, []string{"ret", "ret", "ctrl-c", "ctrl-d", "eof", "eio", "eof", "eio"})
	switch c.ExitTag {
	case "ret":
		c.Exit = steps("\r")
	case "ctrl-c":
		c.Exit = steps("\x03")
	case "ctrl-d":
		c.Exit = steps("\x04")
	case "eof":
		// fault after a PRNG-chosen prefix of the script
		c.Plan = c.Plan[:r.Intn(len(c.Plan)+1)]
		c.Exit = []sess.Step{{EOF: true}}
	case "eio":
		c.Plan = c.Plan[:r.Intn(len(c.Plan)+1)]
		c.Exit = []sess.Step{{EIO: true}}
	}
	return c
}

var c01Comps = [][]string{
	{"foo", "foobar", "fox", "bar", "baz"},
	{"alpha"},
	{},
	{"kb", "kelvin", "Kb", "is", "ǆ"},
	{"kb"},
	{"with space", "with\ttab", "世界", "wörld", "a/b/c", "--flag=", "--flag"},
	{"x1", "x2", "x3", "x4", "x5", "x6", "x7", "x8", "x9", "x10", "x11", "x12", "x13", "x14", "x15", "x16", "x17", "x18", "x19", "x20", "x21", "x22", "x23", "x24", "x25", "x26", "x27", "x28", "x29", "x30"},
}

func c01Completer(which int) func(line []rune, cur int) readline.Completions {
	return c01CompleterOpt(which, true)
}

// c01CompleterOpt: with merged == false the completer never merges two sets of candidates. The
// order in which the library lists the candidates of merged, partly unsorted sets varies from
// one call to the next (map iteration), which a differential check over repeated runs of one
// script (C05) must not take for an effect of its delivery schedules.
func c01CompleterOpt(which int, merged bool) func(line []rune, cur int) readline.Completions {
	return func(line []rune, cur int) readline.Completions {
		vals := c01Comps[which%len(c01Comps)]
		sel := which % 5
		if !merged && sel >= 3 {
			sel = which % 3
		}
		switch sel {
		case 0:
			return readline.CompleteValues(vals...)
		case 3:
			// two sets of candidates merged, each with its own display options
			a := readline.CompleteValues(vals...).Tag("first")
			var args []string
			for _, v := range []string{"merged-one", "merged-two", "kb", "İs"} {
				args = append(args, v, "described")
			}
			b := readline.CompleteValuesDescribed(args...).Tag("second").DisplayList().NoSort().ListSeparator("--").JustifyDescriptions()
			return a.Merge(b)
		case 4:
			if len(line) > 3 {
				return readline.CompleteMessage("no candidates after %d characters", len(line))
			}
			return readline.CompleteValues(vals...).Merge(readline.CompleteValues("kb", "Kelvin", "İstanbul", "ǆx").NoSort())
		case 1:
			var args []string
			for i, v := range vals {
				args = append(args, v, []string{"d1", "d1", "", "d2"}[i%4])
			}
			return readline.CompleteValuesDescribed(args...).Tag("tagged").NoSpace('/', '=')
		default:
			return readline.CompleteValues(vals...).Usage("usage %d", which).Suffix("/")
		}
	}
}

// installEditorStubs makes `vi` and `emacs` resolve to harness stubs (the library ignores the
// value of $EDITOR and runs one of those two names from PATH).
func installEditorStubs(dir, kind string) {
	bin := filepath.Join(dir, "bin")
	os.MkdirAll(bin, 0o755)
	os.Setenv("PATH", bin)
	os.Setenv("TMPDIR", dir)
	if kind == "missing" {
		return
	}
	code := "0"
	if kind == "fail" {
		code = "1"
	}
	for _, n := range []string{"vi", "emacs"} {
		os.WriteFile(filepath.Join(bin, n), []byte("#!/bin/sh\nexit "+code+"\n"), 0o755)
	}
}

func c01Run(env *fw.Env, raw json.RawMessage) fw.Outcome {
	var c c01Case
	unmarshal(raw, &c)
	var o fw.Out
	cfg := c.cfg()
	cfg.Setup = func(s *sess.Session) {
		installEditorStubs(s.Dir, c.Editor)
		if c.Comp {
			s.Sh.Completer = c01Completer(len(c.Plan) + len(c.Hist))
		}
		if c.Multi {
			s.Sh.AcceptMultiline = func(l []rune) bool { return len(l) == 0 || l[len(l)-1] != '\\' }
		}
		for i, name := range c.Bound {
			// (main keymaps and the visual one: the keymaps an inputrc file names)
			for _, km := range []string{"emacs", "vi-insert", "vi-command", "vi-visual"} {
				s.Sh.Config.Bind(km, c01Probe+string(rune('a'+i)), name, false)
			}
		}
		for _, p := range c.Prompts {
			switch p {
			case "right":
				s.Sh.Prompt.Right(func() string { return "\x1b[2m[r]\x1b[0m" })
			case "tooltip":
				s.Sh.Prompt.Tooltip(func(word string) string { return "<" + word + ">" })
			case "secondary":
				s.Sh.Prompt.Secondary(func() string { return ".. " })
			case "transient":
				s.Sh.Prompt.Transient(func() string { return "$ " })
			}
		}
		for i := 0; i < c.Srcs; i++ {
			// (the first one replaces the default source)
			h := readline.NewInMemoryHistory()
			for _, l := range c.Hist {
				h.Write(l)
			}
			s.Sh.History.Add(fmt.Sprintf("src%d", i+1), h)
		}
		if c.Hilite {
			// an application's highlighter: colours every other word, as shells do
			s.Sh.SyntaxHighlighter = func(line []rune) string {
				var sb strings.Builder
				for i, w := range strings.SplitAfter(string(line), " ") {
					if i%2 == 0 {
						sb.WriteString("\x1b[32m" + w + "\x1b[0m")
					} else {
						sb.WriteString(w)
					}
				}
				return sb.String()
			}
		}
	}
	s := sess.New(env.T, env.Scratch, cfg)
	defer s.Close()
	res := s.Call(c.Plan, c.Exit)
	o.O.Events = len(res.Waits) + 1
	for _, w := range res.Waits {
		if w.Cmd != "" {
			o.Set("commands", w.Cmd)
		}
		o.Set("keymaps", w.Main+"/"+w.Local)
		shape := "empty"
		switch {
		case strings.Contains(w.Line, "\n"):
			shape = "multiline"
		case len(w.Line) != len([]rune(w.Line)):
			shape = "multibyte"
		case len(w.Line) > 0:
			shape = "ascii"
		}
		o.Cover(w.Cmd + "|" + w.Main + "/" + w.Local + "|" + shape + "|" + w.Kind)
	}
	ctx := fmt.Sprintf("mode=%s exit=%s bound-for-the-case=%v", c.Mode, c.ExitTag, c.Bound)
	ok := stdFailures(&o, res, ctx)
	if ok && res.Returned && c.Del != "" {
		// the application removes history sources between two calls
		names := []string{}
		for i := 0; i < c.Srcs; i++ {
			names = append(names, fmt.Sprintf("src%d", i+1))
		}
		switch c.Del {
		case "first":
			s.Sh.History.Delete(names[0])
		case "last":
			s.Sh.History.Delete(names[len(names)-1])
		case "middle":
			s.Sh.History.Delete(names[1])
		case "all":
			s.Sh.History.Delete()
			s.Sh.History.Add("fresh", readline.NewInMemoryHistory())
		}
		res2 := s.Call(c.Plan2, steps("\r"))
		o.O.Events += len(res2.Waits) + 1
		ok = stdFailures(&o, res2, ctx+" second-call-after-History.Delete("+c.Del+")")
		if ok && res2.Returned {
			o.Add("second_calls_after_removing_history_sources", 1)
		}
	}
	if ok {
		switch {
		case res.Returned:
			o.Add("returned", 1)
			o.Add("exit_"+c.ExitTag, 1)
			if c.Every {
				o.Add("every_command_x_argument_cases", 1)
			}
		case res.Abandoned:
			// parked waiting for input after every exit key: allowed by the statement
			o.Add("still_waiting_at_end", 1)
		}
		if (c.ExitTag == "eof" || c.ExitTag == "eio") && res.Returned {
			o.Add("returned_after_input_fault", 1)
		}
	}
	if env.Verbose {
		o.O.Trace = res
	}
	o.O.Sample = map[string]any{"mode": c.Mode, "inputrc": c.Inputrc, "size": fmt.Sprintf("%dx%d", c.W, c.H), "hist": len(c.Hist), "plan": qsteps(c.Plan), "exit": c.ExitTag, "returned": res.Returned, "line": clampStr(res.Line, 60), "err": res.Err}
	return o.O
}

func init() {
	fw.Register(&fw.Prop{
		ID:        "C01",
		Level:     "exploration",
		NeedsTerm: true,
		Rule: "one case in four: every registered command in turn, bound by name to a probe key and run with a hostile numeric argument (-9, -2, 0, 99, -, -3, 2, 9, -99, none in turn) on a shaped buffer with the history [one, two words]; otherwise PRNG-determined sessions: mode x inputrc variable settings x history x completer x terminal size x key scripts drawn from every bound sequence of every keymap, words, control bytes, invalid UTF-8, CSI fragments, digit arguments, argument-reading commands; one case in three binds 1-6 registered commands (those without a default binding, or any) to probe keys, with small, zero and negative arguments; one in four sets right / tooltip / secondary / transient prompts and types lines reaching the margin; one in six has 2-4 history sources, the user cycling through them, and a second call after the application removed the first / last / middle / all of them; completers return plain, described, merged and message-only results, with case-folding characters typed in front of Tab under completion-ignore-case; exit by RET/C-c/C-d or by EOF/EIO injected after a random prefix. " +
			"distinct non-trivial = distinct (command executed, main/local keymap, buffer-shape class, wait kind) tuples observed at input waits",
		Assumptions: []string{"numeric arguments <= 9999 (at most 4 digit characters are typed per script)", "scripts <= 45 tokens", "hermetic pty + in-process VT emulator answering cursor queries immediately", "a call that is parked waiting for input after the exit ladder counts as 'blocked waiting', not as a violation"},
		N: func(tier string) int {
			if tier == "thorough" {
				return 120000
			}
			return 4000
		},
		Gen: c01Gen,
		Run: c01Run,
	})
}
