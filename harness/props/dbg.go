package props

import (
	"encoding/json"
	"fmt"
	"math/rand"
	"os"
	"strings"

	"verif/fw"
	"verif/sess"
)

// DBG: ad-hoc session runner used while developing monitors (./check DBG replay file.json).
type dbgCase struct {
	shellCfg
	Pre    int      `json:"pre"`
	Chunks []string `json:"chunks"`
	Exit   []string `json:"exit"`
	Comps  []string `json:"comps"`
	Multi  bool     `json:"multi"`
	Raw    bool     `json:"raw"`
}

func dbgRun(env *fw.Env, raw json.RawMessage) fw.Outcome {
	var c dbgCase
	unmarshal(raw, &c)
	var o fw.Out
	cfg := c.cfg()
	cfg.Screen = true
	cfg.KeepRaw = true
	cfg.Setup = func(s *sess.Session) {
		if c.Prompt != "" {
			p := c.Prompt
			if p == "<empty>" {
				p = ""
			}
			s.Sh.Prompt.Primary(func() string { return p })
		}
		if c.Multi {
			s.Sh.AcceptMultiline = func(l []rune) bool { return len(l) == 0 || l[len(l)-1] != '\\' }
		}
		if c.Pre > 0 {
			fmt.Fprint(os.Stdout, strings.Repeat("\r\n", c.Pre))
		}
	}
	s := sess.New(env.T, env.Scratch, cfg)
	defer s.Close()
	exit := retExit
	if len(c.Exit) > 0 {
		exit = steps(c.Exit...)
	}
	res := s.Call(steps(c.Chunks...), exit)
	var lines []string
	for _, w := range res.Waits {
		lines = append(lines, fmt.Sprintf("wait %d %s step=%d line=%q pos=%d km=%s/%s cmd=%s cur=(%d,%d,%v) base=%d hint=%q kill=%q\n   xterm=%q\n   vte=%q", w.Idx, w.Kind, w.Step, w.Line, w.Pos, w.Main, w.Local, w.Cmd, w.CurRow, w.CurCol, w.Pend, w.Base, w.Hint, w.Kill, gridText(w.Grid[0], 30), gridText(w.Grid[1], 30)))
	}
	lines = append(lines, fmt.Sprintf("returned=%v line=%q err=%q panic=%q end=(%d,%d) style=%q unknown=%v endscreen=%q", res.Returned, res.Line, res.Err, res.Panic, res.EndRow, res.EndCol, res.EndStyle, res.Unknown, res.EndScreen[0]))
	if c.Raw {
		env.T.Lock()
		lines = append(lines, fmt.Sprintf("RAW %q", string(env.T.Raw)))
		env.T.Unlock()
	}
	o.O.Trace = lines
	o.O.Events = 1
	return o.O
}

func init() {
	fw.Register(&fw.Prop{ID: "DBG", Level: "other", NeedsTerm: true, N: func(string) int { return 0 }, Gen: func(r *rand.Rand, t string, i int) any { return dbgCase{} }, Run: dbgRun})
}
