package props

import (
	"encoding/json"
	"fmt"
	"math/rand"
	"os"
	"regexp"
	"sort"
	"strings"
	"unicode"

	"github.com/reeflective/readline"
	"github.com/reeflective/readline/inputrc"

	"verif/fw"
	"verif/sess"
)

// C19: key-sequence notation and configuration dumps round-trip.
// Case kinds: "single" (all 256 runes, exhaustive), "pairs" (a block of the 65536 pairs,
// exhaustive over the whole case list), "defaults" (every bound sequence and macro of the default
// configuration), "random" (sequences <= 12 over 0x00-0xFF and printable Unicode), "dump"
// (dump-functions / dump-variables / dump-macros in a session, re-parsed).

type c19Case struct {
	Kind  string   `json:"kind"`
	Block int      `json:"block,omitempty"`
	Seqs  [][]int  `json:"seqs,omitempty"`
	Prog  []rcNode `json:"prog,omitempty"`
	Mode  string   `json:"mode,omitempty"`
	Again bool     `json:"again,omitempty"` // dump kind: binds changed through the API, then a second call dumps again
}

const c19PairBlocks = 256

func c19Gen(r *rand.Rand, tier string, idx int) any {
	switch {
	case idx == 0:
		return c19Case{Kind: "single"}
	case idx == 1:
		return c19Case{Kind: "defaults"}
	case idx < 2+c19PairBlocks:
		return c19Case{Kind: "pairs", Block: idx - 2}
	}
	if (idx-2-c19PairBlocks)%4 == 3 {
		prog, _ := genProgram(r)
		// no includes in dump cases (the INPUTRC file is a single file)
		var p2 []rcNode
		for _, n := range prog {
			if n.Kind != "include" {
				p2 = append(p2, n)
			}
		}
		return c19Case{Kind: "dump", Prog: p2, Mode: pick(r, []string{"emacs", "vi"}), Again: r.Intn(3) == 0}
	}
	c := c19Case{Kind: "random"}
	for i := 0; i < 50; i++ {
		n := 1 + r.Intn(12)
		var s []int
		for j := 0; j < n; j++ {
			if x := r.Intn(10); x == 0 {
				// any character a terminal can send: also those above U+00FF that Go does not
				// call printable (ideographic space, zero-width joiner of emoji sequences, BOM,
				// line/paragraph separators, private use, unassigned, the last code point)
				s = append(s, int(pick(r, []rune("世é€αЖ🎉ß\u3000\u200b\u200d\ufeff\u2028\u2029\ue000\ufff9\U0001d173\U000e0001\U0010ffff\u0378\u0300\u212a"))))
			} else if x == 1 {
				v := 0x100 + r.Intn(0x10ffff-0x100+1)
				if v >= 0xd800 && v <= 0xdfff {
					v = 0x3000
				}
				s = append(s, v)
			} else {
				s = append(s, r.Intn(256))
			}
		}
		c.Seqs = append(c.Seqs, s)
	}
	return c
}

func fromInts(s []int) string {
	var sb strings.Builder
	for _, v := range s {
		sb.WriteRune(rune(v))
	}
	return sb.String()
}

func runeClassSig(s string) string {
	cls := map[string]bool{}
	for _, r := range s {
		switch {
		case r < 0x20:
			cls["C0"] = true
		case r == 0x7f:
			cls["DEL"] = true
		case r < 0x80:
			cls["ascii"] = true
		case r < 0xa0:
			cls["0x80-0x9f"] = true
		case r == 0xad:
			cls["0xad"] = true
		case r == 0xff:
			cls["0xff"] = true
		case r <= 0xff:
			cls["0xa0-0xfe"] = true
		case !unicode.IsPrint(r):
			cls["unicode-not-printable"] = true
		default:
			cls["unicode"] = true
		}
	}
	var ks []string
	for k := range cls {
		ks = append(ks, k)
	}
	sort.Strings(ks)
	return strings.Join(ks, "+")
}

// failingClasses: classes of the runes of s that do not round-trip on their own.
func failingClasses(s string, f func(string) string) string {
	var bad []rune
	for _, r := range s {
		if inputrc.Unescape(f(string(r))) != string(r) {
			bad = append(bad, r)
		}
	}
	if len(bad) == 0 {
		return "interaction:" + runeClassSig(s)
	}
	return runeClassSig(string(bad))
}

func c19Check(o *fw.Out, s string, what string) bool {
	o.O.Events++
	ok := true
	func() {
		defer func() {
			if p := recover(); p != nil {
				o.Viol("escape-panic", fmt.Sprintf("%s %q: panic %v", what, s, p))
				ok = false
			}
		}()
		e := inputrc.Escape(s)
		if u := inputrc.Unescape(e); u != s {
			o.Viol("escape-roundtrip|"+failingClasses(s, inputrc.Escape), fmt.Sprintf("%s: Unescape(Escape(%q)) = %q (notation %q)", what, s, u, e))
			ok = false
		}
		em := inputrc.EscapeMacro(s)
		if u := inputrc.Unescape(em); u != s {
			o.Viol("escapemacro-roundtrip|"+failingClasses(s, inputrc.EscapeMacro), fmt.Sprintf("%s: Unescape(EscapeMacro(%q)) = %q (notation %q)", what, s, u, em))
			ok = false
		}
		// The notation is written between double quotes by dump-functions / dump-macros: the
		// line they print for this sequence must read back as this sequence. (The empty
		// sequence cannot be bound; NUL-led sequences are refused by the parser.)
		if ok && s != "" {
			o.O.Events++
			cfg, cfgM := inputrc.NewConfig(), inputrc.NewConfig()
			err := inputrc.ParseBytes([]byte("\""+e+"\": self-insert\n"), cfg)
			inputrc.ParseBytes([]byte("\"z\": \""+em+"\"\n"), cfgM)
			b, found := cfg.Binds["emacs"][s]
			m := cfgM.Binds["emacs"]["z"]
			switch {
			case err != nil || !found || b.Action != "self-insert" || b.Macro:
				var got []string
				for k := range cfg.Binds["emacs"] {
					got = append(got, fmt.Sprintf("%q", k))
				}
				sort.Strings(got)
				o.Viol("quoted-notation-does-not-read-back|key-sequence|"+runeClassSig(s), fmt.Sprintf("%s: the dump line %q binds %s instead of %q (err=%v)", what, "\""+e+"\": self-insert", strings.Join(tail(got, 3), " "), s, err))
				ok = false
			case !m.Macro || m.Action != s:
				o.Viol("quoted-notation-does-not-read-back|macro|"+runeClassSig(s), fmt.Sprintf("%s: the dump line %q gives the macro %q instead of %q", what, "\"z\": \""+em+"\"", m.Action, s))
				ok = false
			}
		}
	}()
	return ok
}

func c19Run(env *fw.Env, raw json.RawMessage) fw.Outcome {
	var c c19Case
	unmarshal(raw, &c)
	var o fw.Out
	switch c.Kind {
	case "single":
		for r := 0; r < 256; r++ {
			c19Check(&o, string(rune(r)), "single rune")
		}
		o.Cover("single-exhaustive")
	case "pairs":
		per := 256 / c19PairBlocks
		if per < 1 {
			per = 1
		}
		for a := c.Block * per; a < (c.Block+1)*per; a++ {
			for b := 0; b < 256; b++ {
				c19Check(&o, string([]rune{rune(a), rune(b)}), "pair")
				if len(o.O.Findings) > 40 {
					break
				}
			}
		}
		o.Cover(fmt.Sprintf("pairs-block-%d", c.Block))
	case "defaults":
		old := os.Getenv("INPUTRC")
		os.Setenv("INPUTRC", "/dev/null")
		sh := readline.NewShell()
		os.Setenv("INPUTRC", old)
		n := 0
		for km, m := range sh.Config.Binds {
			for seq, b := range m {
				n++
				if !c19Check(&o, seq, "default bind of "+km) && len(o.O.Findings) > 60 {
					break
				}
				if b.Macro {
					c19Check(&o, b.Action, "default macro of "+km)
				}
			}
			o.Cover("defaults|" + km)
		}
		o.Add("default_binds_checked", n)
	case "random":
		for _, s := range c.Seqs {
			c19Check(&o, fromInts(s), "random sequence")
		}
		o.Cover(fmt.Sprintf("random|%s", runeClassSig(fromInts(c.Seqs[0]))))
	case "dump":
		c19Dump(env, &c, &o)
	}
	// keep the number of findings per case small
	if len(o.O.Findings) > 12 {
		seen := map[string]bool{}
		var keep []fw.Finding
		for _, f := range o.O.Findings {
			if !seen[f.Sig] {
				seen[f.Sig] = true
				keep = append(keep, f)
			}
		}
		o.O.Findings = keep
	}
	o.O.Sample = map[string]any{"kind": c.Kind, "block": c.Block, "n": len(c.Seqs)}
	return o.O
}

// c19Dump runs the dump commands in a session and parses their output back.
func c19Dump(env *fw.Env, c *c19Case, o *fw.Out) {
	text := renderNodes(c.Prog, "", nil)
	cfg := sess.Config{Mode: c.Mode, Inputrc: text, W: 200, H: 50, KeepRaw: true}
	var shell *readline.Shell
	cfg.Setup = func(s *sess.Session) {
		shell = s.Sh
		km := "emacs"
		if c.Mode == "vi" {
			km = "vi-command"
		}
		s.Sh.Keymap.Register(map[string]func(){
			"verif-mark": func() { fmt.Print("\x1b]777;mark\x07") },
		})
		s.Sh.Config.Bind(km, "\x18\x01", "verif-mark", false)
		s.Sh.Config.Bind(km, "\x18\x02", "dump-functions", false)
		s.Sh.Config.Bind(km, "\x18\x03", "dump-variables", false)
		s.Sh.Config.Bind(km, "\x18\x04", "dump-macros", false)
	}
	s := sess.New(env.T, env.Scratch, cfg)
	defer s.Close()
	// numeric argument, then the dump command, each between two marks
	arg := "\x1b1"
	if c.Mode == "vi" {
		arg = "\x1b1"
	}
	plan := steps("\x18\x01", arg, "\x18\x02", "\x18\x01", arg, "\x18\x03", "\x18\x01", arg, "\x18\x04", "\x18\x01")
	if c.Mode == "vi" {
		// in vi the commands are run from command mode, where digits are the numeric argument
		plan = steps("\x1b", "\x18\x01", "1", "\x18\x02", "\x18\x01", "1", "\x18\x03", "\x18\x01", "1", "\x18\x04", "\x18\x01")
	}
	res := s.Call(plan, retExit)
	if res.CPUSpin || res.MemBlowup {
		// a generated configuration may bind a key the session types (RET, 1, ESC, C-x) to a
		// macro whose body contains its own key sequence: endless by configuration, and not
		// what this property is about
		for _, m := range s.Sh.Config.Binds {
			for seq, b := range m {
				if b.Macro && seq != "" && strings.Contains(b.Action, seq) {
					o.Inc("dump session not finished: the generated configuration binds a macro that feeds itself")
					o.O.Recycle = true
					return
				}
			}
		}
	}
	if !stdFailures(o, res, "dump session mode="+c.Mode) {
		return
	}
	env.T.Lock()
	rawOut := string(env.T.Raw)
	env.T.Unlock()
	parts := strings.Split(rawOut, "\x1b]777;mark\x07")
	o.O.Events++
	o.Cover("dump|" + c.Mode)
	if len(parts) < 5 {
		o.Inc("dump marks not found in the output")
		return
	}
	o.Add("dump_sessions", 1)
	main := "emacs"
	if c.Mode == "vi" {
		main = "vi-command"
	}
	// the dump text: lines of the region that look like inputrc directives
	extract := func(region string, prefixes ...string) string {
		var out []string
		for _, l := range strings.Split(strings.ReplaceAll(region, "\r", ""), "\n") {
			l = rxCSI.ReplaceAllString(l, "")
			for _, p := range prefixes {
				if strings.HasPrefix(l, p) {
					out = append(out, l)
					break
				}
			}
		}
		return strings.Join(out, "\n") + "\n"
	}
	cmds := shell.Keymap.Commands()
	// expected from the live configuration
	wantF, wantM := map[string]string{}, map[string]string{}
	liveBinds := func() {
		wantF, wantM = map[string]string{}, map[string]string{}
		for seq, b := range shell.Config.Binds[main] {
			if b.Macro {
				wantM[seq] = b.Action
			} else if _, ok := cmds[b.Action]; ok {
				wantF[seq] = b.Action
			}
		}
	}
	liveBinds()
	reparse := func(text string) (*inputrc.Config, error) {
		cfg := inputrc.NewConfig()
		var err error
		func() {
			defer func() {
				if p := recover(); p != nil {
					err = fmt.Errorf("panic: %v", p)
				}
			}()
			err = inputrc.ParseBytes([]byte(text), cfg)
		}()
		return cfg, err
	}
	diffMaps := func(got, want map[string]string) (string, string) {
		var miss, extra []string
		for k, v := range want {
			if g, ok := got[k]; !ok || g != v {
				miss = append(miss, fmt.Sprintf("%q:%q(got %q)", k, v, got[k]))
			}
		}
		for k, v := range got {
			if _, ok := want[k]; !ok {
				extra = append(extra, fmt.Sprintf("%q:%q", k, v))
			}
		}
		sort.Strings(miss)
		sort.Strings(extra)
		return strings.Join(tail(miss, 4), " "), strings.Join(tail(extra, 4), " ")
	}
	// functions
	fmBad := false
	ftext := extract(parts[1], "\"")
	if strings.TrimSpace(ftext) == "" && len(wantF) > 20 {
		// without its numeric argument dump-functions prints sentences, not inputrc lines: the
		// generated configuration rebinds a key the session types (ESC, the digit, the probe
		// prefix), which is not what this property is about
		o.Inc("dump not in inputrc format: the generated configuration rebinds a key of the dump session")
		return
	}
	cfgF, err := reparse(ftext)
	gotF := map[string]string{}
	for seq, b := range cfgF.Binds["emacs"] {
		if !b.Macro {
			gotF[seq] = b.Action
		}
	}
	if miss, extra := diffMaps(gotF, wantF); miss != "" || extra != "" || err != nil {
		fmBad = true
		o.Viol("dump-functions-does-not-reparse|"+c.Mode, fmt.Sprintf("keymap %s: %d binds expected, %d re-parsed, err=%v; missing/different: %s; unexpected: %s", main, len(wantF), len(gotF), err, miss, extra))
	}
	// variables
	vtext := extract(parts[2], "set ")
	cfgV, err := reparse(vtext)
	gotV, wantV := map[string]string{}, map[string]string{}
	for k, v := range libResult(cfgV).Vars {
		gotV[k] = normVarValue(v)
	}
	live := inputrc.NewConfig()
	live.Vars = shell.Config.Vars
	for k, v := range libResult(live).Vars {
		wantV[k] = normVarValue(v)
	}
	// `set keymap X` is parser state, not a stored variable: re-parsing it has its effect
	delete(wantV, "keymap")
	delete(gotV, "keymap")
	if miss, extra := diffMaps(gotV, wantV); miss != "" || extra != "" || err != nil {
		cls := c19VarClass(wantV, gotV)
		o.Viol("dump-variables-does-not-reparse|"+cls, fmt.Sprintf("%d variables expected, %d re-parsed, err=%v; missing/different: %s; unexpected: %s", len(wantV), len(gotV), err, miss, extra))
	}
	// macros
	mtext := extract(parts[3], "\"")
	cfgM, err := reparse(mtext)
	gotM := map[string]string{}
	for seq, b := range cfgM.Binds["emacs"] {
		if b.Macro {
			gotM[seq] = b.Action
		}
	}
	if miss, extra := diffMaps(gotM, wantM); miss != "" || extra != "" || err != nil {
		fmBad = true
		o.Viol("dump-macros-does-not-reparse|"+c.Mode, fmt.Sprintf("keymap %s: %d macros expected, %d re-parsed, err=%v; missing/different: %s; unexpected: %s\ndump text: %s", main, len(wantM), len(gotM), err, miss, extra, q(clampStr(mtext, 400))))
	}
	o.Add("dump_binds_compared", len(wantF))
	o.Add("dump_macros_compared", len(wantM))
	o.Add("dump_vars_compared", len(wantV))
	if c.Again && !fmBad && res.Returned {
		// the application changes binds through the API between two calls (a new sequence, an
		// existing one given another command, one removed, a new macro, a macro changed); the
		// dumps of the next call describe the configuration as it is then
		shell.Config.Bind(main, "\x18\x05", "kill-whole-line", false)
		shell.Config.Bind(main, "\x18\x07", "verif-mark", false)
		if b, ok := shell.Config.Binds[main]["\x01"]; ok && !b.Macro {
			shell.Config.Bind(main, "\x01", "end-of-line", false)
		}
		delete(shell.Config.Binds[main], "\x18\x03")
		shell.Config.Bind(main, "\x18\x06", "typed by a macro", true)
		for seq, b := range shell.Config.Binds[main] {
			if b.Macro && seq != "\x18\x06" && !strings.ContainsAny(seq, "\x1b1\x18\r") {
				shell.Config.Bind(main, seq, b.Action+"!", true)
				break
			}
		}
		plan2 := steps("\x18\x01", arg, "\x18\x02", "\x18\x01", arg, "\x18\x04", "\x18\x01")
		if c.Mode == "vi" {
			plan2 = steps("\x1b", "\x18\x01", "1", "\x18\x02", "\x18\x01", "1", "\x18\x04", "\x18\x01")
		}
		res2 := s.Call(plan2, retExit)
		if !stdFailures(o, res2, "second dump session mode="+c.Mode) {
			return
		}
		env.T.Lock()
		rawOut = string(env.T.Raw)
		env.T.Unlock()
		parts = strings.Split(rawOut, "\x1b]777;mark\x07")
		if len(parts) < 8 {
			o.Inc("dump marks of the second call not found in the output")
			return
		}
		liveBinds()
		ftext, mtext = extract(parts[len(parts)-3], "\""), extract(parts[len(parts)-2], "\"")
		cfgF, err = reparse(ftext)
		gotF = map[string]string{}
		for seq, b := range cfgF.Binds["emacs"] {
			if !b.Macro {
				gotF[seq] = b.Action
			}
		}
		if miss, extra := diffMaps(gotF, wantF); miss != "" || extra != "" || err != nil {
			o.Viol("dump-functions-after-binds-changed-through-the-API-does-not-reparse|"+c.Mode, fmt.Sprintf("keymap %s: %d binds expected, %d re-parsed, err=%v; missing/different: %s; unexpected: %s", main, len(wantF), len(gotF), err, miss, extra))
		}
		cfgM, err = reparse(mtext)
		gotM = map[string]string{}
		for seq, b := range cfgM.Binds["emacs"] {
			if b.Macro {
				gotM[seq] = b.Action
			}
		}
		if miss, extra := diffMaps(gotM, wantM); miss != "" || extra != "" || err != nil {
			o.Viol("dump-macros-after-binds-changed-through-the-API-does-not-reparse|"+c.Mode, fmt.Sprintf("keymap %s: %d macros expected, %d re-parsed, err=%v; missing/different: %s; unexpected: %s", main, len(wantM), len(gotM), err, miss, extra))
		}
		o.Add("second_dumps_after_API_changes", 1)
		o.Cover("dump-after-api-change|" + c.Mode)
	}
	if env.Verbose {
		o.O.Trace = map[string]string{"functions": clampStr(ftext, 2000), "variables": vtext, "macros": mtext}
	}
}

// c19VarClass names which kind of variables fail to come back (narrow signature).
func c19VarClass(want, got map[string]string) string {
	cls := map[string]bool{}
	for k, v := range want {
		if got[k] == v {
			continue
		}
		switch {
		case v == "on" && got[k] == "true", v == "off" && got[k] == "false":
			cls["bool-printed-as-true-false"] = true
		case strings.ContainsAny(v, "\x1b\x00\x07") || strings.IndexFunc(v, func(r rune) bool { return r < 0x20 }) >= 0:
			cls["value-with-control-character"] = true
		case v == "":
			cls["empty-string-value"] = true
		case strings.ContainsAny(v, " \t#"):
			cls["value-with-blank-or-hash"] = true
		default:
			cls["other:"+k] = true
		}
	}
	for k := range got {
		if _, ok := want[k]; !ok {
			cls["unexpected-variable"] = true
		}
	}
	var ks []string
	others := 0
	for k := range cls {
		if strings.HasPrefix(k, "other:") {
			others++
		}
	}
	for k := range cls {
		if others > 3 && strings.HasPrefix(k, "other:") {
			continue
		}
		ks = append(ks, k)
	}
	if others > 3 {
		ks = append(ks, "many-other-variables")
	}
	sort.Strings(ks)
	return strings.Join(ks, "+")
}

var rxCSI = regexp.MustCompile(`\x1b\[[0-9;?]*[ -/]*[@-~]|\x1b\][^\x07]*\x07`)

func init() {
	fw.Register(&fw.Prop{
		ID:        "C19",
		Level:     "exploration",
		NeedsTerm: true,
		Rule: "Unescape(Escape(s)) == s and Unescape(EscapeMacro(s)) == s for: every single rune 0x00-0xFF (exhaustive), every pair of such runes (65536, exhaustive, 256 cases), every bound sequence and macro body of every keymap of the default configuration, random sequences of 1-12 runes over 0x00-0xFF and printable Unicode; for each of them also the line dump-functions / dump-macros would print (the notation between double quotes, as a key sequence bound to self-insert and as a macro body) is parsed back with the inputrc parser and must bind exactly that sequence / give exactly that macro; plus sessions that run dump-functions/dump-variables/dump-macros with a numeric argument on configurations produced by C13's generator and parse the captured output back; one such session in three then changes binds through the API (new sequence, another command for an existing one, a deletion, a new and a changed macro) and dumps again in a second call. " +
			"distinct non-trivial = distinct (kind, block / keymap / rune-class set / mode) tuples",
		Assumptions: []string{"the exhaustive part is complete only when all cases of the tier ran (the driver reports cases_planned vs evaluations)"},
		N: func(tier string) int {
			if tier == "thorough" {
				return 2 + c19PairBlocks + 24000
			}
			return 2 + c19PairBlocks + 800
		},
		Gen: c19Gen,
		Run: c19Run,
	})
}
