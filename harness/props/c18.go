package props

import (
	"encoding/json"
	"fmt"
	"math/rand"
	"os"
	"strings"

	"verif/fw"
	"verif/sess"
)

// C18: replaying a keyboard macro equals retyping its keys.

type c18Case struct {
	shellCfg
	Style string      `json:"style"` // emacs | vi
	Start string      `json:"start"` // starting buffer text
	Reg   string      `json:"reg"`   // vi register
	K     []sess.Step `json:"k"`     // the recorded keys, one token per step
	// an earlier, empty recording on the same shell, then keys typed before the judged recording
	// the macro is recorded in one call (accepted with RET) and replayed in the next call of the
	// same Shell; session A types K in both calls
	Across   bool        `json:"across,omitempty"`
	Multi    bool        `json:"multi,omitempty"` // AcceptMultiline set: RET on a line ending with a backslash inserts a newline
	EmptyRec bool        `json:"empty_rec,omitempty"`
	Pre      []sess.Step `json:"pre,omitempty"`
	Fed      bool        `json:"fed,omitempty"` // K holds keys whose command feeds keys back to the reader
}

// c18FedKeys: K may hold keys whose command feeds keys back to the reader.
var c18FedKeys = os.Getenv("VERIF_C18_FED") != "0"

var c18Printable = []string{"a", "foo", " ", "x y", "\"", "'", "\\", "\\e", "\\C-a", "$(", "1", "-", "Z", "tab", "#", "é", "→ 日本", "ł€", "wörld"}
var c18EmacsKeys = []string{"\x01", "\x05", "\x02", "\x06", "\x04", "\x0b", "\x19", "\x14", "\x17", "\x1bb", "\x1bf", "\x1bd", "\x1bu", "\x1b[D", "\x1b[C", "\x1b[H", "\x1b[F", "\x1b[3~", "\x1b2", "\x1b3", "\x7f"}
var c18ViCmdKeys = []string{"0", "$", "h", "l", "w", "b", "x", "X", "D", "p", "P", "~", "dw", "db", "2l", "3h", "yw", "rZ", "fo", "\x1b[D", "\x1b[C",
	"di\"", "da\"", "di'", "di(", "da(", "yi\"", "diw", "daw", "dt ", "df ", "dT ", "d$", "d0", "\"ayw", "\"ap"}

// escCombines: typed directly after ESC, this byte continues a sequence bound in the vi-insert
// keymap (so "ESC b" replayed without timing is not "ESC, then b").
func escCombines(b byte) bool {
	for _, seq := range defaultSeqs()["vi-insert"] {
		t := keyBytes(seq)
		if len(t) >= 2 && t[0] == 0x1b && t[1] == b {
			return true
		}
	}
	return false
}

func c18Gen(r *rand.Rand, tier string, idx int) any {
	c := c18Case{}
	c.W, c.H = 80, 24
	// (convert-meta off: the usual UTF-8 setting, so that non-ASCII text in K is text)
	c.Inputrc = "set history-autosuggest off\nset convert-meta off\nset input-meta on\nset output-meta on\n"
	c.Style = pick(r, []string{"emacs", "emacs", "vi"})
	c.Mode = c.Style
	c.Start = pick(r, []string{"", "hello world", "one two three four", "a(b)c 'q' end", "say \"hello\" and \"world\" now (x) 'y z' end"})
	c.Multi = r.Intn(4) == 0
	if !c.Multi && r.Intn(6) == 0 {
		c.Across = true
	}
	if r.Intn(5) == 0 {
		c.EmptyRec = true
		for i := r.Intn(3); i > 0; i-- {
			if c.Style == "emacs" {
				c.Pre = append(c.Pre, sess.Step{W: pick(r, []string{"ab", "x", "\x02", " "}), Tag: "pre"})
			} else {
				c.Pre = append(c.Pre, sess.Step{W: pick(r, []string{"l", "w", "h", "x"}), Tag: "pre"})
			}
		}
	}
	n := 1 + r.Intn(12)
	add := func(w, tag string) { c.K = append(c.K, sess.Step{W: w, Tag: tag}) }
	if c.Style == "emacs" && c18FedKeys && r.Intn(8) == 0 {
		// keys whose command feeds keys back to the reader: sequences bound to inputrc macros
		// (one of them nested), do-lowercase-version (M-B runs M-b)
		c.Fed = true
		c.Inputrc += "\"\\C-xq\": \"hello \"\n\"\\C-xw\": \"\\C-a[\\C-e]\"\n\"\\C-xj\": \"<\\C-xq>\"\n"
	}
	if c.Style == "emacs" {
		for i := 0; i < n; i++ {
			if c.Fed && r.Intn(3) == 0 {
				add(pick(r, []string{"\x18q", "\x18w", "\x18j", "\x1bB", "\x1bF"}), "feeding-key")
				continue
			}
			switch r.Intn(10) {
			case 0, 1, 2, 3:
				add(pick(r, c18Printable), "text")
			case 5:
				if c.Multi {
					// a Return refused by AcceptMultiline: a newline is inserted, K goes on
					add("\x05", "key") // at the end of the line, so that the Return is refused
					add("\\", "text")
					add("\r", "key")
					break
				}
				add(pick(r, c18EmacsKeys), "key")
			case 4:
				// quoted-insert + key (the argument key in its own read)
				add("\x11", "quoted-insert")
				add(pick(r, []string{"\x01", "\x1b", "a", "\t"}), "arg")
			default:
				add(pick(r, c18EmacsKeys), "key")
			}
		}
		// K must be self-contained: a numeric argument left pending at its end would combine
		// with whatever is typed next (the record/replay keys in one session, K again in the other)
		for len(c.K) > 0 && (c.K[len(c.K)-1].W == "\x1b2" || c.K[len(c.K)-1].W == "\x1b3") {
			c.K = c.K[:len(c.K)-1]
		}
		if len(c.K) == 0 {
			add("x", "text")
		}
		return c
	}
	c.Reg = string(pick(r, []rune("abcxyz0159")))
	// K starts and ends in command mode
	for i := 0; i < n; i++ {
		switch r.Intn(10) {
		case 0, 1, 2:
			// an insertion: i/a/A + text + ESC (ESC alone in its read)
			st := pick(r, []string{"i", "a", "A", "I"})
			if len(c.K) > 0 && c.K[len(c.K)-1].Tag == "esc" && escCombines(st[0]) {
				for _, alt := range []string{"i", "a", "A", "I"} {
					if !escCombines(alt[0]) {
						st = alt
					}
				}
			}
			add(st, "insert")
			add(pick(r, c18Printable), "text")
			if c.Multi && st == "A" && r.Intn(2) == 0 {
				add("\\", "text")
				add("\r", "key")
				add("z", "text")
			}
			if r.Intn(3) == 0 {
				add(pick(r, []string{"\x01", "\x05", "\x17", "\x7f"}), "key")
			}
			add("\x1b", "esc")
		default:
			k := pick(r, c18ViCmdKeys)
			// a lone ESC is told apart from an ESC-prefixed key by timing only, and a replay has
			// no timing: an ESC-initial key directly after ESC is excluded (as in C05 for Vi modes)
			if len(c.K) > 0 && c.K[len(c.K)-1].Tag == "esc" && escCombines(k[0]) {
				k = "l"
				if escCombines('l') {
					k = "0"
				}
			}
			switch {
			case len(k) == 2 && strings.ContainsAny(k[:1], "rf"):
				add(k[:1], "key")
				add(k[1:], "arg")
			case len(k) == 3 && k[0] != 0x1b && r.Intn(2) == 0:
				// operator, object and its argument key each in their own read
				add(k[:1], "key")
				add(k[1:2], "key")
				add(k[2:], "arg")
			default:
				add(k, "key")
			}
		}
	}
	return c
}

func c18Session(env *fw.Env, c *c18Case, replay bool) (*sess.Result, []sess.Step) {
	cfg := c.cfg()
	if c.Multi {
		cfg.Setup = func(s *sess.Session) {
			s.Sh.AcceptMultiline = func(l []rune) bool { return len(l) == 0 || l[len(l)-1] != '\\' }
		}
	}
	s := sess.New(env.T, env.Scratch, cfg)
	defer s.Close()
	var plan []sess.Step
	add := func(w, tag string) { plan = append(plan, sess.Step{W: w, Tag: tag}) }
	if c.Start != "" {
		add(c.Start, "start")
	}
	if c.Style == "vi" {
		add("\x1b", "esc")
	}
	if replay && c.EmptyRec {
		if c.Style == "emacs" {
			add("\x18(", "start-record")
			add("\x18)", "stop-record")
		} else {
			add("q", "start-record")
			add(pick(rand.New(rand.NewSource(int64(len(c.K)))), []string{c.Reg, "m"}), "arg")
			add("q", "stop-record")
		}
	}
	plan = append(plan, c.Pre...)
	if c.Across {
		// first call: K typed (A) or recorded (B), then accepted; second call: K typed or replayed
		var second []sess.Step
		switch {
		case !replay:
			plan = append(plan, c.K...)
			second = append(second, c.K...)
		case c.Style == "emacs":
			add("\x18(", "start-record")
			plan = append(plan, c.K...)
			add("\x18)", "stop-record")
			second = append(second, sess.Step{W: "\x18e", Tag: "replay"})
		default:
			add("q", "start-record")
			add(c.Reg, "arg")
			plan = append(plan, c.K...)
			add("q", "stop-record")
			second = append(second, sess.Step{W: "\x1b", Tag: "esc"}, sess.Step{W: "@", Tag: "replay"}, sess.Step{W: c.Reg, Tag: "arg"})
		}
		if !replay && c.Style == "vi" {
			second = append([]sess.Step{{W: "\x1b", Tag: "esc"}}, second...)
		}
		if r1 := s.Call(plan, retExit); !r1.Returned {
			return r1, plan
		}
		res := s.Call(second, steps("\r"))
		return res, second
	}
	if !replay {
		plan = append(plan, c.K...)
		plan = append(plan, c.K...)
	} else if c.Style == "emacs" {
		add("\x18(", "start-record")
		plan = append(plan, c.K...)
		add("\x18)", "stop-record")
		add("\x18e", "replay")
	} else {
		add("q", "start-record")
		add(c.Reg, "arg")
		plan = append(plan, c.K...)
		add("q", "stop-record")
		add("@", "replay")
		add(c.Reg, "arg")
	}
	exit := steps("\r")
	if c.Style == "vi" {
		exit = steps("\r")
	}
	res := s.Call(plan, exit)
	return res, plan
}

func c18Run(env *fw.Env, raw json.RawMessage) fw.Outcome {
	var c c18Case
	unmarshal(raw, &c)
	var o fw.Out
	ctx := fmt.Sprintf("style=%s across-calls=%v multiline=%v start=%q reg=%q empty-recording-first=%v pre=%v K=%v", c.Style, c.Across, c.Multi, c.Start, c.Reg, c.EmptyRec, qsteps(c.Pre), qsteps(c.K))
	resA, planA := c18Session(env, &c, false)
	if !stdFailures(&o, resA, ctx+" session=retype") {
		o.O.Sample = map[string]any{"ctx": ctx}
		return o.O
	}
	resB, planB := c18Session(env, &c, true)
	if !stdFailures(&o, resB, ctx+" session=record+replay") {
		o.O.Sample = map[string]any{"ctx": ctx}
		return o.O
	}
	final := func(res *sess.Result, plan []sess.Step) (string, bool) {
		for i := len(res.Waits) - 1; i >= 0; i-- {
			w := res.Waits[i]
			if w.Kind == "main" && w.Step == len(plan) {
				return w.Line, true
			}
		}
		return "", false
	}
	fa, okA := final(resA, planA)
	fb, okB := final(resB, planB)
	// A call that returned before the end of its script (a Return in K that was accepted, or a
	// replay that accepts the line) has the returned line as its effect; when only one of the
	// two sessions returned early, replaying did not have the effect of retyping.
	earlyA := !okA && resA.Returned && resA.Err == ""
	earlyB := !okB && resB.Returned && resB.Err == ""
	switch {
	case earlyA && earlyB:
		fa, fb = "returned:"+resA.Line, "returned:"+resB.Line
		o.Add("pairs_that_both_returned_before_the_end_of_the_script", 1)
	case earlyA != earlyB && (okA || earlyA) && (okB || earlyB):
		which := "retyped"
		if earlyB {
			which = "recorded-then-replayed"
		}
		sig := "only-one-session-returned-before-the-end-of-its-script|" + c.Style
		if c.Fed {
			sig = "replay-differs-from-retyping|a-key-of-the-recording-feeds-keys|" + c.Style
		}
		o.Viol(sig, ctx+fmt.Sprintf("\nthe %s session returned (%q, %q) before the end of its script, the other one went on to its end (buffers: retyped %q, replayed %q)", which, resA.Line+resB.Line, resA.Err+resB.Err, fa, fb))
		return o.O
	case !okA || !okB:
		o.Inc("final buffer not observed")
		return o.O
	}
	o.O.Events += 2
	kinds := map[string]bool{}
	for _, st := range c.K {
		switch {
		case st.Tag == "text" && strings.ContainsAny(st.W, "\\\"'"):
			kinds["quotes-backslash"] = true
		case st.Tag == "text":
			kinds["text"] = true
		case strings.HasPrefix(st.W, "\x1b["):
			kinds["csi"] = true
		case strings.HasPrefix(st.W, "\x1b") && len(st.W) > 1:
			kinds["meta"] = true
		case st.Tag == "quoted-insert":
			kinds["quoted-insert"] = true
		case st.Tag == "esc":
			kinds["esc"] = true
		case len(st.W) == 1 && st.W[0] < 0x20:
			kinds["control"] = true
		default:
			kinds["plain-key"] = true
		}
	}
	var ks []string
	for k := range kinds {
		ks = append(ks, k)
	}
	sortStrings(ks)
	pre := ""
	if c.EmptyRec {
		pre = "|after-an-empty-recording"
		o.Add("cases_after_an_empty_recording", 1)
	}
	if c.Across {
		pre += "|replayed-in-the-next-call"
		o.Add("cases_replayed_in_the_next_call", 1)
	}
	o.Cover(c.Style + "|" + strings.Join(ks, "+") + fmt.Sprintf("|len%d", min(len(c.K), 6)) + pre)
	if fa != fb {
		sig := "replay-differs-from-retyping|" + c.Style + "|" + strings.Join(ks, "+")
		if c.Fed {
			sig = "replay-differs-from-retyping|a-key-of-the-recording-feeds-keys|" + c.Style
		}
		o.Viol(sig, ctx+fmt.Sprintf("\nretyped twice -> %q\nrecorded then replayed -> %q", fa, fb))
	}
	o.O.Sample = map[string]any{"ctx": ctx, "retyped": fa, "replayed": fb}
	return o.O
}

func sortStrings(s []string) {
	for i := 1; i < len(s); i++ {
		for j := i; j > 0 && s[j] < s[j-1]; j-- {
			s[j], s[j-1] = s[j-1], s[j]
		}
	}
}

func init() {
	fw.Register(&fw.Prop{
		ID:        "C18",
		Level:     "exploration",
		NeedsTerm: true,
		Rule: "one Emacs case in eight holds keys whose command feeds keys back to the reader (sequences bound to inputrc macros, one nested; do-lowercase-version): differences there are classed a-key-of-the-recording-feeds-keys; differential pairs of sessions: A = start text, then the key script K typed twice; B = start text, start recording, K, stop recording, replay (Emacs: C-x ( K C-x ) C-x e; Vi: q<r> K q @<r> for 10 registers, K starting and ending in command mode, ESC in its own read). K = 1-12 tokens: printable text incl. non-ASCII characters (Latin-1, above U+00FF, CJK), quotes, backslashes and text that looks like escapes (\\e, \\C-a), control keys, ESC-prefixed keys, CSI arrows/Home/End/Delete, quoted-insert + key, digit arguments, Vi commands with counts and argument keys, operators with text objects and surround characters (di\" da( yi'), named registers; one case in four has AcceptMultiline set and K may contain a Return that is refused (a line ending with a backslash: a newline is inserted and K goes on); one case in six records the macro in one call (accepted with RET) and replays it in the next call of the same Shell (session A types K in both calls); one case in five first makes an empty recording on the same shell and types a few keys; oracle: the final buffer texts of A and B are equal. " +
			"distinct non-trivial = distinct (style, set of key kinds in K, length class) tuples",
		Assumptions: []string{"convert-meta off, input-meta and output-meta on (non-ASCII text in K is text)", "one Emacs case in eight holds keys whose command feeds keys back to the reader (sequences bound to inputrc macros, one nested; do-lowercase-version): a difference in those cases is classed a-key-of-the-recording-feeds-keys (known finding)"},
		N: func(tier string) int {
			if tier == "thorough" {
				return 40000
			}
			return 1500
		},
		Gen: c18Gen,
		Run: c18Run,
	})
}
