package props

import (
	"encoding/json"
	"fmt"
	"math/rand"
	"strings"

	"verif/fw"
	"verif/vt"
)

// SELF: validation of the harness' own terminal emulator against hand-computed frames (deferred
// wrap, wide characters at the margin, scrolling at the bottom row, CSI J/K variants, the two
// ESC[K models, combining marks, cursor save/restore, DSR). Not a property check: it guards the
// trusted base of C04/C11/C20. `./check SELF quick`.

type vtCase struct {
	Name string
	W, H int
	In   string
	Rows [2][]string // expected rows (right-trimmed) under the xterm and VTE models
	Cur  [3]int      // row, col, pending(0/1) under the xterm model
	DSRs int
}

var vtCases = []vtCase{
	{"plain", 10, 3, "abc", [2][]string{{"abc"}, {"abc"}}, [3]int{0, 3, 0}, 0},
	{"deferred-wrap", 5, 3, "abcde", [2][]string{{"abcde"}, {"abcde"}}, [3]int{0, 4, 1}, 0},
	{"wrap-on-next-char", 5, 3, "abcdef", [2][]string{{"abcde", "f"}, {"abcde", "f"}}, [3]int{1, 1, 0}, 0},
	{"cr-lf-cancels-pending-wrap", 5, 3, "abcde\r\nx", [2][]string{{"abcde", "x"}, {"abcde", "x"}}, [3]int{1, 1, 0}, 0},
	{"el-in-pending-wrap", 5, 3, "abcde\x1b[K", [2][]string{{"abcd"}, {"abcde"}}, [3]int{0, 4, 1}, 0},
	{"el-variants", 6, 3, "abcdef\r\x1b[2C\x1b[1K", [2][]string{{"   def"}, {"   def"}}, [3]int{0, 2, 0}, 0},
	{"el-2", 6, 3, "abc\x1b[2K", [2][]string{{}, {}}, [3]int{0, 3, 0}, 0},
	{"wide-at-margin-wraps-early", 5, 3, "abcd世", [2][]string{{"abcd", "世"}, {"abcd", "世"}}, [3]int{1, 2, 0}, 0},
	{"wide-fits-exactly", 6, 3, "abcd世", [2][]string{{"abcd世"}, {"abcd世"}}, [3]int{0, 5, 1}, 0},
	{"combining-joins-previous-cell", 8, 3, "éx", [2][]string{{"éx"}, {"éx"}}, [3]int{0, 2, 0}, 0},
	{"scroll-at-bottom", 4, 2, "a\r\nb\r\nc", [2][]string{{"a", "b", "c"}, {"a", "b", "c"}}, [3]int{2, 1, 0}, 0},
	{"cursor-up-clamped-to-screen", 4, 2, "a\r\nb\r\nc\x1b[9Ax", [2][]string{{"a", "bx", "c"}, {"a", "bx", "c"}}, [3]int{1, 2, 0}, 0},
	{"ed-0-clears-below", 6, 3, "aaa\r\nbbb\r\nccc\x1b[2A\r\x1b[1C\x1b[J", [2][]string{{"a"}, {"a"}}, [3]int{0, 1, 0}, 0},
	{"cuf-cub-clamp", 5, 2, "\x1b[99Cx\x1b[99Dy", [2][]string{{"y   x"}, {"y   x"}}, [3]int{0, 1, 0}, 0},
	{"save-restore", 8, 3, "ab\x1b7cd\r\nef\x1b8X", [2][]string{{"abXd", "ef"}, {"abXd", "ef"}}, [3]int{0, 3, 0}, 0},
	{"sgr-ignored", 8, 2, "\x1b[1;31mred\x1b[0m", [2][]string{{"red"}, {"red"}}, [3]int{0, 3, 0}, 0},
	{"dsr-counted", 8, 2, "ab\x1b[6n", [2][]string{{"ab"}, {"ab"}}, [3]int{0, 2, 0}, 1},
	{"tab-stops", 20, 2, "a\tb", [2][]string{{"a       b"}, {"a       b"}}, [3]int{0, 9, 0}, 0},
	{"overwrite-half-of-wide-blanks-other-half", 8, 2, "世\r\x1b[1Cx", [2][]string{{" x"}, {" x"}}, [3]int{0, 2, 0}, 0},
	{"hide-show-cursor-and-style", 8, 2, "\x1b[?25l\x1b[2 qx\x1b[?25h", [2][]string{{"x"}, {"x"}}, [3]int{0, 1, 0}, 0},
}

func selfRun(env *fw.Env, raw json.RawMessage) fw.Outcome {
	var idx int
	json.Unmarshal(raw, &idx)
	var o fw.Out
	c := vtCases[idx%len(vtCases)]
	for m := 0; m < 2; m++ {
		v := vt.New(c.W, c.H, vt.ELRule(m))
		dsr := 0
		v.OnDSR = func(r, col int) { dsr++ }
		// feed in two chunkings: whole and per byte
		for pass := 0; pass < 2; pass++ {
			v = vt.New(c.W, c.H, vt.ELRule(m))
			dsr = 0
			v.OnDSR = func(r, col int) { dsr++ }
			if pass == 0 {
				v.Write([]byte(c.In))
			} else {
				for i := 0; i < len(c.In); i++ {
					v.Write([]byte{c.In[i]})
				}
			}
			o.O.Events++
			got := v.Dump(0)
			if strings.Join(got, "\n") != strings.Join(c.Rows[m], "\n") {
				o.Viol("emulator-frame-wrong|"+c.Name, fmt.Sprintf("model %d pass %d input %q: rows %q, expected %q", m, pass, c.In, got, c.Rows[m]))
			}
			if m == 0 {
				r, col, pend := v.Cursor()
				p := 0
				if pend {
					p = 1
				}
				if [3]int{r, col, p} != c.Cur {
					o.Viol("emulator-cursor-wrong|"+c.Name, fmt.Sprintf("input %q: cursor (%d,%d,pending=%d), expected %v", c.In, r, col, p, c.Cur))
				}
				if dsr != c.DSRs {
					o.Viol("emulator-dsr-count|"+c.Name, fmt.Sprintf("%d DSR callbacks, expected %d", dsr, c.DSRs))
				}
			}
			if len(v.Unknown) > 0 {
				o.Viol("emulator-unknown-sequence|"+c.Name, fmt.Sprint(v.Unknown))
			}
		}
	}
	o.Cover(c.Name)
	o.O.Sample = c.Name
	return o.O
}

func init() {
	fw.Register(&fw.Prop{ID: "SELF", Level: "other", Rule: "hand-computed emulator frames", Explain: "validation of the harness' VT emulator against hand-computed frames under both ESC[K models and two chunkings",
		N:   func(string) int { return len(vtCases) },
		Gen: func(r *rand.Rand, t string, i int) any { return i },
		Run: selfRun})
}
