package props

import (
	"encoding/json"
	"fmt"
	"math/rand"
	"strings"
	"unicode/utf8"

	"verif/fw"
	"verif/sess"
)

// C07: undo walks back through real earlier states; redo reverses undo.

type c07Case struct {
	shellCfg
	Ops  []string `json:"ops"` // operation names
	N    int      `json:"n"`   // R1: n undos then n redos after the script
	Walk bool     `json:"walk"`
	// earlier Readline calls on the same Shell, each ended by accept-line: their undo states
	// must not show in the judged call (every call edits a new line)
	Prior [][]string `json:"prior,omitempty"`
	// the text typed by "word" / "char" (default "foo bar" / "x"): multi-byte and double-width
	// characters in half of the random cases (states are compared as text, positions are characters)
	// the application has removed every history source (Shell.History.Delete()): the line being
	// typed is edited, undone and redone all the same
	NoHist bool   `json:"nohist,omitempty"`
	Word   string `json:"word,omitempty"`
	Char   string `json:"char,omitempty"`
}

var c07Words = []string{"жук b", "é à", "日本 語", "a ü c", "e\u0301x y", "😀 z", "ab 界", "ñ"}
var c07Chars = []string{"ж", "é", "界", "😀", "ü", "x"}

// operation -> keys (emacs)
var c07Emacs = map[string]string{
	"word": "foo bar", "char": "x", "bdel": "\x7f", "killword": "\x1bd", "killline": "\x0b", "yank": "\x19", "transpose": "\x14",
	"upcase": "\x1bu", "bol": "\x01", "eol": "\x05", "bword": "\x1bb", "undo": "\x1f", "redo": "\x18\x12",
	"histup": "\x10", "histdown": "\x0e", "bkillword": "\x17", "space": " ",
}

var c07Alpha = []string{"word", "char", "bdel", "killword", "killline", "yank", "transpose", "bol", "bword", "undo", "redo"}
var c07AlphaRandom = []string{"word", "char", "bdel", "killword", "killline", "yank", "transpose", "upcase", "bol", "eol", "bword", "undo", "undo", "redo", "bkillword", "space"}

// vi: operations are given from command mode and return to it
var c07Vi = map[string]string{
	"word": "ifoo bar\x1b", "char": "ax\x1b", "bdel": "X", "killword": "dw", "killline": "D", "yank": "p", "transpose": "xp",
	"upcase": "~", "bol": "0", "eol": "$", "bword": "b", "undo": "u", "redo": ".", "bkillword": "db", "space": "i \x1b",
	"histup": "k", "histdown": "j",
}

func c07NumExhaustive(tier string) (maxLen, count int) {
	maxLen = 4
	if tier == "thorough" {
		maxLen = 5
	}
	n, p := 0, 1
	for l := 1; l <= maxLen; l++ {
		p *= len(c07Alpha)
		n += p
	}
	return maxLen, n
}

func c07Gen(r *rand.Rand, tier string, idx int) any {
	c := c07Case{}
	c.W, c.H = 80, 24
	c.Inputrc = "set history-autosuggest off\n"
	_, nex := c07NumExhaustive(tier)
	c.N = 1 + idx%5
	if idx < nex {
		// idx-th sequence in length-then-lexicographic order
		c.Mode = "emacs"
		k := idx
		l, p := 1, len(c07Alpha)
		for k >= p {
			k -= p
			l++
			p *= len(c07Alpha)
		}
		for i := 0; i < l; i++ {
			c.Ops = append(c.Ops, c07Alpha[k%len(c07Alpha)])
			k /= len(c07Alpha)
		}
		return c
	}
	c.Mode = pick(r, []string{"emacs", "vi"})
	n := 3 + r.Intn(38)
	c.Walk = r.Intn(4) == 0
	if c.Walk {
		c.Hist = []string{"echo one", "ls -la two", "git three four"}
	}
	avail := 0 // vi: consecutive undos just before (vi-redo with nothing to redo enters insert mode)
	for i := 0; i < n; i++ {
		op := pick(r, c07AlphaRandom)
		if c.Walk && r.Intn(6) == 0 {
			op = pick(r, []string{"histup", "histdown"})
		}
		if c.Mode == "vi" {
			switch {
			case op == "undo":
				avail++
			case op == "redo" && avail > 0:
				avail--
			case op == "redo":
				op = "char"
				avail = 0
			default:
				avail = 0
			}
		}
		c.Ops = append(c.Ops, op)
	}
	if c.Mode == "vi" {
		c.N = 1
	}
	c.NoHist = !c.Walk && r.Intn(8) == 0
	if r.Intn(2) == 0 {
		c.Word, c.Char = pick(r, c07Words), pick(r, c07Chars)
		c.Inputrc += "set convert-meta off\nset input-meta on\nset output-meta on\n" // the usual UTF-8 settings
	}
	if c.Mode == "emacs" && !c.Walk && r.Intn(4) == 0 {
		for k, nk := 0, 1+r.Intn(2); k < nk; k++ {
			var ops []string
			for i, n := 0, 1+r.Intn(5); i < n; i++ {
				ops = append(ops, pick(r, []string{"word", "char", "killword", "bword", "undo", "space", "bdel"}))
			}
			if r.Intn(2) == 0 {
				ops = append(ops, "histup") // the call is accepted on a history line
			}
			c.Prior = append(c.Prior, ops)
		}
	}
	return c
}

func c07Run(env *fw.Env, raw json.RawMessage) fw.Outcome {
	var c c07Case
	unmarshal(raw, &c)
	var o fw.Out
	keys := c07Emacs
	if c.Mode == "vi" {
		keys = c07Vi
	}
	if c.Word != "" {
		k2 := map[string]string{}
		for k, v := range keys {
			k2[k] = v
		}
		if c.Mode == "vi" {
			k2["word"], k2["char"] = "i"+c.Word+"\x1b", "a"+c.Char+"\x1b"
		} else {
			k2["word"], k2["char"] = c.Word, c.Char
		}
		keys = k2
	}
	cfg := c.cfg()
	cfg.Setup = func(s *sess.Session) {
		if c.NoHist {
			s.Sh.History.Delete()
		}
		if c.Mode == "emacs" {
			s.Sh.Config.Bind("emacs", "\x18\x12", "redo", false)
		}
	}
	var plan []sess.Step
	if c.Mode == "vi" {
		plan = append(plan, sess.Step{W: "\x1b", Tag: "esc"})
	}
	// one key per read, so that every intermediate buffer is observed (they are all "shown")
	opEnd := map[int]bool{}
	for _, op := range c.Ops {
		ks := keys[op]
		for len(ks) > 0 {
			n := 1
			if c.Mode == "emacs" && ks[0] == 0x1b && len(ks) > 1 {
				n = 2 // ESC-prefixed key
			}
			if c.Mode == "emacs" && ks[0] == 0x18 && len(ks) > 1 {
				n = 2 // C-x prefix
			}
			if ks[0] >= 0x80 {
				_, n = utf8.DecodeRuneInString(ks) // one character per read
			}
			plan = append(plan, sess.Step{W: ks[:n], Tag: op})
			ks = ks[n:]
		}
		opEnd[len(plan)-1] = true
	}
	nOps := len(plan)
	lenClass := "len<=5"
	if len(c.Ops) > 5 {
		lenClass = "len>5"
	}
	// R1: n undos then n redos
	for i := 0; i < c.N; i++ {
		plan = append(plan, sess.Step{W: keys["undo"], Tag: "r1-undo"})
	}
	for i := 0; i < c.N; i++ {
		plan = append(plan, sess.Step{W: keys["redo"], Tag: "r1-redo"})
	}
	// U2: a tail of (#commands + 2) undos
	tail := len(c.Ops)*2 + 2
	for i := 0; i < tail; i++ {
		plan = append(plan, sess.Step{W: keys["undo"], Tag: "u2-undo"})
	}
	s := sess.New(env.T, env.Scratch, cfg)
	defer s.Close()
	for _, ops := range c.Prior {
		var pp []sess.Step
		for _, op := range ops {
			pp = append(pp, sess.Step{W: keys[op], Tag: op})
		}
		if pres := s.Call(pp, retExit); !pres.Returned {
			o.Inc("an earlier call did not return")
			return o.O
		}
		o.Add("judged_calls_after_earlier_calls_on_the_same_shell", 1)
	}
	exit := retExit
	if c.Mode == "vi" {
		exit = steps("\r")
	}
	res := s.Call(plan, exit)
	ctx := fmt.Sprintf("mode=%s no-history-source=%v earlier-calls=%v ops=%v n=%d word=%q char=%q", c.Mode, c.NoHist, c.Prior, c.Ops, c.N, c.Word, c.Char)
	if !stdFailures(&o, res, ctx) {
		o.O.Sample = map[string]any{"ctx": ctx}
		return o.O
	}
	// buffer after step i = snapshot at the wait with Step == i+1
	after := map[int]*sess.Snap{}
	for i := range res.Waits {
		w := &res.Waits[i]
		if w.Kind == "main" {
			after[w.Step-1] = w
		}
	}
	bufAfter := func(i int) (string, bool) {
		if w, ok := after[i]; ok {
			return w.Line, true
		}
		return "", false
	}
	initial := ""
	if w, ok := after[-1]; ok {
		initial = w.Line
	}
	seen := map[string]bool{initial: true}
	for _, h := range c.Hist {
		if c.Walk {
			seen[h] = true
		}
	}
	// Order model ("newest first", "a new edit discards the redo branch"): S is the timeline of
	// shown buffers of this line, P the set of timeline indexes the editor may be on (several
	// when the same text was shown more than once). Undo must land strictly below, redo strictly
	// above a possible index; an edit cuts the timeline above the highest possible index.
	S := []string{initial}
	P := map[int]bool{0: true}
	maxP := func() int {
		m := 0
		for q := range P {
			if q > m {
				m = q
			}
		}
		return m
	}
	move := func(b string, down bool) bool {
		np := map[int]bool{}
		for q := range S {
			if S[q] != b {
				continue
			}
			for pp := range P {
				if down && q < pp || !down && q > pp {
					np[q] = true
				}
			}
		}
		if len(np) == 0 {
			return false
		}
		P = np
		return true
	}
	orderOK := !c.Walk
	hasEdit, hasUndo := false, false
	editSinceUndo := false // R2: a buffer-changing edit happened after the last undo/redo chain began
	inChain := false
	prev := initial
	diverged := false
	for i, st := range plan {
		b, ok := bufAfter(i)
		if !ok {
			break
		}
		// Vi operations are planned from command mode back to command mode. vi-redo with nothing
		// to redo enters insert mode (an undo at the oldest state made the plan believe there was
		// something to redo): from there the keys are typed as text, the plan no longer holds.
		if w := after[i]; c.Mode == "vi" && w.Main != "vi-command" && (opEnd[i] || i >= nOps) {
			o.Add("vi_scripts_that_left_command_mode_not_judged_further", 1)
			diverged = true
			break
		}
		o.O.Events++
		tag := st.Tag
		switch {
		case tag == "undo" || tag == "r1-undo" || tag == "u2-undo":
			hasUndo = true
			if !seen[b] {
				o.Viol("undo-produced-a-buffer-never-shown|"+c.Mode+"|"+lenClass, ctx+fmt.Sprintf(" step %d (%s): buffer %q is none of the %d earlier states of this call", i, tag, b, len(seen)))
			}
			inChain, editSinceUndo = true, false
			if orderOK && b != prev {
				o.Add("undo_steps_checked_against_the_timeline", 1)
				if !move(b, true) {
					orderOK = false
					if seen[b] {
						o.Viol("undo-produced-a-state-that-is-not-an-earlier-live-state|"+c.Mode+"|"+lenClass, ctx+fmt.Sprintf(" step %d (%s): buffer %q was shown before but is not below the current state on the live timeline %q (a state undone and then replaced by a new edit came back, or the order is not newest first)", i, tag, b, S))
					}
				}
			}
		case tag == "redo" || tag == "r1-redo":
			if orderOK && b != prev {
				o.Add("redo_steps_checked_against_the_timeline", 1)
				if !move(b, false) {
					orderOK = false
					if seen[b] {
						o.Viol("redo-produced-a-state-that-was-not-undone|"+c.Mode+"|"+lenClass, ctx+fmt.Sprintf(" step %d: buffer %q is not above the current state on the live timeline %q", i, b, S))
					}
				}
			}
			if inChain && editSinceUndo && b != prev {
				o.Viol("redo-after-a-new-edit-changed-the-buffer|"+c.Mode+"|"+lenClass, ctx+fmt.Sprintf(" step %d: a new edit followed the undo, yet redo changed %q into %q", i, prev, b))
			}
			if !seen[b] {
				o.Viol("redo-produced-a-buffer-never-shown|"+c.Mode+"|"+lenClass, ctx+fmt.Sprintf(" step %d: buffer %q", i, b))
			}
		case tag == "esc":
		default:
			if b != prev {
				hasEdit = true
				if inChain {
					editSinceUndo = true
				}
				S = append(S[:maxP()+1], b)
				P = map[int]bool{len(S) - 1: true}
			}
		}
		seen[b] = true
		prev = b
		if len(o.O.Findings) > 2 {
			break
		}
	}
	// R1
	if bBefore, ok := bufAfter(nOps - 1); ok && !diverged {
		if bAfter, ok2 := bufAfter(nOps + 2*c.N - 1); ok2 {
			// the law is about undos that undo something: an undo at the oldest state is a
			// no-op in every undo system, and redo then legitimately goes past the start
			effective := true
			p := bBefore
			for k := 0; k < c.N; k++ {
				b, _ := bufAfter(nOps + k)
				if b == p {
					effective = false
				}
				p = b
			}
			if !effective {
				o.Add("r1_skipped_undo_at_oldest_state", 1)
			} else {
				o.O.Events++
				o.Add("r1_judged", 1)
			}
			if effective && bAfter != bBefore {
				mid, _ := bufAfter(nOps + c.N - 1)
				sig := "n-undos-then-n-redos-do-not-restore|" + c.Mode + "|" + lenClass
				if lastEditIsInsert(c.Ops) {
					sig = "n-undos-then-n-redos-do-not-restore|typed-text-last|" + c.Mode + "|" + lenClass
				}
				o.Viol(sig, ctx+fmt.Sprintf(" buffer %q; after %d undos %q; after %d redos %q", bBefore, c.N, mid, c.N, bAfter))
			}
		}
	}
	// U2 for a recalled line: when the last history move of the script arrives on an entry that
	// this call had not visited before, that entry's stored text is the initial content of the
	// line edited from then on, and the tail of undos must end there.
	if c.Walk && !diverged && c.Mode == "emacs" {
		pos, lastMove := 0, -1
		visited := map[int]int{0: 1}
		for i, st := range plan[:nOps] {
			switch st.Tag {
			case "histup":
				if pos < len(c.Hist) {
					pos++
					visited[pos]++
					lastMove = i
				}
			case "histdown":
				if pos > 0 {
					pos--
					visited[pos]++
					lastMove = i
				}
			}
		}
		if lastMove >= 0 && pos >= 1 && visited[pos] == 1 {
			want := c.Hist[len(c.Hist)-pos]
			arrived, ok1 := bufAfter(lastMove)
			bEnd, ok2 := bufAfter(len(plan) - 1)
			if ok1 && ok2 && arrived == want {
				o.O.Events++
				o.Add("u2_judged_on_a_recalled_line", 1)
				if bEnd != want {
					o.Viol("repeated-undo-does-not-reach-the-initial-content|recalled-line|"+c.Mode+"|"+lenClass, ctx+fmt.Sprintf(" the last history move (step %d) arrived on the entry %q, first visit in this call; after %d more undos the buffer is %q", lastMove, want, tail, bEnd))
				}
			}
		}
	}
	// U2
	if !c.Walk && !diverged {
		if bEnd, ok := bufAfter(len(plan) - 1); ok {
			o.O.Events++
			o.Add("u2_judged", 1)
			if bEnd != initial {
				o.Viol("repeated-undo-does-not-reach-the-initial-content|"+c.Mode+"|"+lenClass, ctx+fmt.Sprintf(" after %d more undos the buffer is %q, the line started as %q", tail, bEnd, initial))
			}
		}
	}
	if c.Word != "" {
		o.Add("cases_typing_multibyte_text", 1)
	}
	if c.NoHist {
		o.Add("cases_without_any_history_source", 1)
	}
	if hasEdit && hasUndo {
		o.Cover(c.Mode + "|" + strings.Join(c.Ops, ","))
	}
	if env.Verbose {
		var tr []string
		for i, st := range plan {
			b, _ := bufAfter(i)
			tr = append(tr, fmt.Sprintf("%d %s -> %q", i, st.Tag, b))
		}
		o.O.Trace = tr
	}
	o.O.Sample = map[string]any{"mode": c.Mode, "ops": strings.Join(c.Ops, ","), "n": c.N, "returned": res.Line}
	return o.O
}

// lastEditIsInsert: the last buffer-changing operation of the script types text.
func lastEditIsInsert(ops []string) bool {
	for i := len(ops) - 1; i >= 0; i-- {
		switch ops[i] {
		case "word", "char", "space":
			return true
		case "bol", "eol", "bword", "undo", "redo", "histup", "histdown":
			continue
		default:
			return false
		}
	}
	return false
}

func init() {
	fw.Register(&fw.Prop{
		ID:        "C07",
		Level:     "exploration",
		NeedsTerm: true,
		Rule: "EXHAUSTIVE over all sequences of length <= 4 (quick) / <= 5 (thorough) over the 11-operation alphabet {insert word, insert char, backward-delete-char, kill-word, kill-line, yank, transpose-chars, beginning-of-line, backward-word, undo, redo} in Emacs mode, plus random sequences of 3-40 operations over 16 operations in Emacs and Vi (with history walks in a quarter of them); after each script: n undos then n redos (n = 1..5, R1), then a tail of 2*len+2 undos (U2). Monitors over the per-step buffer snapshots: U1 every buffer produced by undo was shown earlier in this call (or is a history entry in walking sessions); U2 the tail ends at the line's initial content; R1 n undos + n redos restore the text; R2 redo after a new buffer-changing edit following an undo leaves the buffer unchanged. Half of the random cases type multi-byte / double-width text; one in eight runs with every history source removed; in walking Emacs sessions whose last history move arrives on an entry visited for the first time the tail of undos must end on the stored entry. " +
			"distinct non-trivial = distinct (mode, operation sequence) with >= 1 buffer-changing edit and >= 1 undo",
		Assumptions: []string{"redo is bound to C-x C-r in Emacs mode for the test (it has no default Emacs binding); Vi uses u / C-r"},
		N: func(tier string) int {
			_, n := c07NumExhaustive(tier)
			if tier == "thorough" {
				return n + 30000
			}
			return n + 1500
		},
		Gen: c07Gen,
		Run: c07Run,
	})
}
