package props

import (
	"encoding/json"
	"fmt"
	"math/rand"
	"os"
	"sort"
	"strings"

	"verif/fw"
	"verif/sess"
	"verif/vt"
)

type c04Case struct {
	shellCfg
	// the last prompt line changes width during the call: "len" = the application's prompt function
	// appends 0-2 marks depending on the buffer length; "mode" = show-mode-in-prompt with mode
	// strings of different widths (the library re-renders that line at every redisplay)
	Dyn  string      `json:"dyn,omitempty"`
	Pre  int         `json:"pre"` // newlines printed before the prompt (frames near the bottom: scrolling)
	Plan []sess.Step `json:"plan"`
	// the application colours the buffer (SyntaxHighlighter): colours only, the cells are the same
	Hilite bool `json:"hilite,omitempty"`
	// HintW: display widths of the status texts an application command (bound to C-t) shows
	// under the line with Hint.Set, one per invocation
	HintW []int `json:"hint_w,omitempty"`
}

var c04Prompts = []string{"> ", "$ ", "", "\x1b[1;32muser@host\x1b[0m:\x1b[34m~/src\x1b[0m$ ", "世界> ", "λ ", "line one\n> ", "a very long prompt that takes quite some room >> ", "#"}

func widthOf(s string) int {
	n := 0
	for _, r := range s {
		n += vt.RuneWidth(r)
	}
	return n
}

// c04Text builds text of a given display width from a content class.
func c04Text(r *rand.Rand, class string, width int) string {
	var sb strings.Builder
	w := 0
	for w < width {
		var ch rune
		switch class {
		case "ascii":
			ch = rune(pick(r, []byte("abcdefghij klmnop-_/.")))
		case "cjk":
			if r.Intn(3) == 0 {
				ch = pick(r, []rune("abc "))
			} else {
				ch = pick(r, runeClasses["wide"])
			}
		case "combining":
			ch = pick(r, []rune("aeou n"))
			if r.Intn(3) == 0 && w > 0 {
				ch = pick(r, runeClasses["combining"])
			}
		case "tabs":
			ch = pick(r, []rune("ab\tc d"))
		default:
			ch = pick(r, runeClasses["latin1"])
		}
		cw := vt.RuneWidth(ch)
		if ch == '\t' {
			cw = 5
		}
		if w+cw > width {
			ch, cw = 'x', 1
		}
		sb.WriteRune(ch)
		w += cw
	}
	return sb.String()
}

func c04Gen(r *rand.Rand, tier string, idx int) any {
	c := c04Case{}
	c.Mode = pick(r, []string{"emacs", "emacs", "vi"})
	c.W = 8 + r.Intn(113)
	if r.Intn(3) == 0 {
		c.W = 8 + r.Intn(25)
	}
	c.H = 6 + r.Intn(35)
	c.Prompt = pick(r, c04Prompts)
	for widthOf(lastLine(c.Prompt)) > c.W-2 {
		c.Prompt = pick(r, []string{"> ", "", "$ "})
	}
	pw := widthOf(lastLine(visibleLines(c.Prompt)[len(visibleLines(c.Prompt))-1]))
	c.Inputrc = "set history-autosuggest off\n"
	if r.Intn(2) == 0 {
		c.Inputrc += "set multiline-column " + pick(r, []string{"on", "off"}) + "\n"
	}
	// history entries: lengths around multiples of the width, several content classes
	nh := 2 + r.Intn(3)
	for i := 0; i < nh; i++ {
		class := pick(r, []string{"ascii", "ascii", "cjk", "combining", "tabs", "latin1"})
		k := r.Intn(3)
		target := c.W*k - pw + (r.Intn(5) - 2)
		if k == 0 || r.Intn(4) == 0 {
			target = r.Intn(c.W)
		}
		if target < 1 {
			target = 1 + r.Intn(5)
		}
		if target > 3*c.W {
			target = 3 * c.W
		}
		e := c04Text(r, class, target)
		if r.Intn(4) == 0 {
			// embedded newlines
			n := 1 + r.Intn(3)
			for j := 0; j < n; j++ {
				e += "\n" + c04Text(r, class, r.Intn(c.W+3))
			}
		}
		e = strings.TrimSpace(e)
		for len(e) > 0 {
			r0 := []rune(e)[0]
			if vt.RuneWidth(r0) != 0 {
				break
			}
			e = strings.TrimSpace(string([]rune(e)[1:]))
		}
		if e == "" {
			e = "x"
		}
		c.Hist = append(c.Hist, e)
	}
	if r.Intn(3) == 0 {
		// a wrapped single line next to a multi-line entry of short lines: walking from one to
		// the other puts continuation rows on rows that held wrapped text the frame before
		long := c04Text(r, "ascii", c.W+c.W/2+r.Intn(c.W))
		short := "one\ntwo\nthree"
		if r.Intn(2) == 0 {
			short = "if x\n  then y\n  else z\nfi"
		}
		pair := []string{strings.TrimSpace(long), short}
		if r.Intn(2) == 0 {
			pair[0], pair[1] = pair[1], pair[0]
		}
		c.Hist = append(c.Hist, pair...)
	}
	if r.Intn(3) == 0 {
		c.Pre = r.Intn(c.H + 3)
	}
	c.Hilite = r.Intn(5) == 0
	if r.Intn(5) == 0 && widthOf(lastLine(visibleLines(c.Prompt)[len(visibleLines(c.Prompt))-1])) <= c.W-10 {
		c.Dyn = pick(r, []string{"len", "mode"})
		if c.Dyn == "mode" {
			c.Inputrc += "set show-mode-in-prompt on\nset vi-ins-mode-string (insert)\nset vi-cmd-mode-string :\nset emacs-mode-string @@\n"
		}
	}
	// plan: recall an entry, then edit / move so that consecutive frames grow and shrink
	var plan []sess.Step
	add := func(w, tag string) { plan = append(plan, sess.Step{W: w, Tag: tag}) }
	vi := c.Mode == "vi"
	n := 4 + r.Intn(14)
	if vi {
		add("\x1b", "esc")
	}
	for i := 0; i < n; i++ {
		if vi {
			if c.Dyn != "" && r.Intn(5) == 0 {
				// through insert mode and back (the mode string in the prompt changes twice)
				add(pick(r, []string{"i", "a", "A", "I"}), "insert-mode")
				for _, ch := range pick(r, []string{"", "q", "zz"}) {
					add(string(ch), "type")
				}
				add("\x1b", "esc")
				continue
			}
			switch r.Intn(12) {
			case 0, 1, 2:
				add("k", "hist-up")
			case 3:
				add("j", "hist-down")
			case 4:
				add("h", "left")
			case 5:
				add("l", "right")
			case 6:
				add("0", "bol")
			case 7:
				add("$", "eol")
			case 8:
				add("w", "word")
			case 9:
				add("x", "delchar")
			case 10:
				add("D", "kill-eol")
			case 11:
				add("b", "bword")
			}
			continue
		}
		switch r.Intn(16) {
		case 0, 1, 2:
			add("\x10", "hist-up")
		case 3:
			add("\x0e", "hist-down")
		case 4:
			add("\x01", "bol")
		case 5:
			add("\x05", "eol")
		case 6:
			add("\x06", "right")
		case 7:
			add("\x02", "left")
		case 8:
			add("\x1bf", "word")
		case 9:
			add("\x1bb", "bword")
		case 10:
			add("\x0b", "kill-eol")
		case 11:
			add("\x19", "yank")
		case 12:
			add("\x1f", "undo")
		case 13:
			// one character per read, so that every intermediate frame is observed
			for _, ch := range pick(r, []string{"a", "xyz", " ", "hello world"}) {
				add(string(ch), "type")
			}
		case 14:
			add("\x7f", "backspace")
		case 15:
			add("\x04", "delchar")
		}
	}
	if !vi && r.Intn(4) == 0 {
		// an application command showing a status text under the line: widths around the
		// terminal width and its multiples
		for i, n := 0, 1+r.Intn(3); i < n; i++ {
			c.HintW = append(c.HintW, pick(r, []int{c.W - 1, c.W, c.W, c.W + 1, 2 * c.W, c.W / 2, 3}))
			at := 1 + r.Intn(len(plan))
			plan = append(plan[:at], append([]sess.Step{{W: "\x14", Tag: "app-hint"}}, plan[at:]...)...)
		}
		if r.Intn(2) == 0 {
			// a keyboard macro being recorded meanwhile: the library shows its own status line
			// above the application's text (two hint sections)
			at := r.Intn(len(plan))
			plan = append(plan[:at], append([]sess.Step{{W: "\x18(", Tag: "start-kbd-macro"}}, plan[at:]...)...)
		}
	}
	c.Plan = plan
	return c
}

func lastLine(s string) string {
	ls := strings.Split(s, "\n")
	return ls[len(ls)-1]
}

func contentClass(s string) string {
	cl := "ascii"
	for _, r := range s {
		switch {
		case r == '\t':
			return "tabs"
		case vt.RuneWidth(r) == 2:
			cl = "wide"
		case vt.RuneWidth(r) == 0 && r != '\n':
			if cl == "ascii" {
				cl = "combining"
			}
		case r > 0x7f && cl == "ascii":
			cl = "latin1"
		}
	}
	return cl
}

// judgeSnap applies the frame oracle to one wait snapshot under both terminal models.
// It returns (verdicts per model, ok under at least one model).
func judgeSnap(sn *sess.Snap, W int, promptLines []string) ([2]frameVerdict, bool) {
	var vs [2]frameVerdict
	ok := false
	for m := 0; m < 2; m++ {
		// Where on the screen the frame is anchored is not fixed by the statement: the frame may
		// start up to 3 rows below the row where the call started, if the rows above are blank.
		have := false
		for off := 0; off <= 3; off++ {
			if off > 0 && (off > len(sn.Grid[m]) || !rowsBlank(sn.Grid[m][:off])) {
				break
			}
			g := sn.Grid[m]
			if off <= len(g) {
				g = g[off:]
			}
			v := judgeFrame(g, W, promptLines, []rune(sn.Line), sn.Pos)
			v.Anchor = off
			v.CurRow += off
			v.RowsUsed += off
			curOK := v.OK && v.CurRow == sn.CurRow && v.CurCol == sn.CurCol
			if !have || (v.OK && !vs[m].OK) || curOK {
				vs[m] = v
				have = true
			}
			if v.OK {
				ok = true
			}
			if curOK {
				break
			}
		}
	}
	return vs, ok
}

func rowsBlank(rows [][]vt.Cell) bool {
	for _, r := range rows {
		for _, c := range r {
			if !blankCell(c) {
				return false
			}
		}
	}
	return true
}

// c04Causes computes, from the geometry alone, which known-delicate situations a frame contains.
// Signatures are built from these predicates so that a failure on a frame with none of them
// (plain text that neither fills a row exactly nor has wide characters at the margin) is
// always a new violation.
func c04Causes(promptLines []string, buf []rune, W int) []string {
	pw := widthOf(promptLines[len(promptLines)-1])
	lines := splitLines(buf)
	var out []string
	add := func(s string) {
		for _, x := range out {
			if x == s {
				return
			}
		}
		out = append(out, s)
	}
	for k, ln := range lines {
		col := pw // the library indents every logical line by the prompt width
		rows := 1
		for _, r := range ln {
			w := vt.RuneWidth(r)
			if r == '\t' {
				w = 5
				add("tab")
			}
			if w == 0 {
				add("zero-width-char")
				continue
			}
			if col >= W {
				col = 0
				rows++
			}
			if w == 2 && col == W-1 {
				add("wide-char-at-margin")
				col = 0
				rows++
			}
			col += w
		}
		if col >= W {
			if k == len(lines)-1 {
				add("last-line-fills-row-exactly")
			} else {
				add("inner-line-fills-row-exactly")
			}
		}
		if rows > 1 && len(lines) > 1 {
			add("wrapped-line-in-multiline-buffer")
		}
	}
	if pw == 0 && len(buf) == 0 {
		add("empty-prompt-empty-buffer")
	}
	if pw < 2 && len(lines) > 1 {
		add("prompt-narrower-than-secondary-prompt")
	}
	if len(out) == 0 {
		return []string{"plain"}
	}
	sort.Strings(out)
	return out
}

// c04Primary picks one cause by fixed priority.
func c04Primary(all []string) string {
	for _, p := range []string{"wide-char-at-margin", "inner-line-fills-row-exactly", "prompt-narrower-than-secondary-prompt", "wrapped-line-in-multiline-buffer", "last-line-fills-row-exactly", "zero-width-char", "tab", "empty-prompt-empty-buffer"} {
		for _, x := range all {
			if x == p {
				return p
			}
		}
	}
	return "plain"
}

func c04Run(env *fw.Env, raw json.RawMessage) fw.Outcome {
	var c c04Case
	unmarshal(raw, &c)
	var o fw.Out
	cfg := c.cfg()
	cfg.Screen = true
	if c.Prompt == "" {
		cfg.NoPrompt = false
		cfg.Prompt = ""
	}
	cfg.Setup = func(s *sess.Session) {
		p := c.Prompt
		sh0 := s.Sh
		s.Sh.Prompt.Primary(func() string {
			if c.Dyn == "len" {
				return p + strings.Repeat("+", sh0.Line().Len()%3)
			}
			return p
		})
		if c.Pre > 0 {
			fmt.Fprint(os.Stdout, strings.Repeat("\r\n", c.Pre))
		}
		if len(c.HintW) > 0 {
			shown := 0
			sh := s.Sh
			sh.Keymap.Register(map[string]func(){"verif-status": func() {
				w := c.HintW[shown%len(c.HintW)]
				shown++
				sh.Hint.Set(strings.Repeat("status 12 ", w/10+1)[:w])
			}})
			sh.Config.Bind("emacs", "\x14", "verif-status", false)
		}
		if c.Hilite {
			s.Sh.SyntaxHighlighter = func(line []rune) string {
				var sb strings.Builder
				for i, w := range strings.SplitAfter(string(line), " ") {
					if i%2 == 0 {
						sb.WriteString("\x1b[1;32m" + w + "\x1b[0m")
					} else {
						sb.WriteString("\x1b[4m" + w + "\x1b[24m")
					}
				}
				return sb.String()
			}
		}
	}
	s := sess.New(env.T, env.Scratch, cfg)
	defer s.Close()
	res := s.Call(c.Plan, retExit)
	promptLines := visibleLines(c.Prompt)
	basePrompt := append([]string{}, promptLines...)
	ctx := fmt.Sprintf("W=%d H=%d mode=%s prompt=%q dynamic=%q pre=%d", c.W, c.H, c.Mode, c.Prompt, c.Dyn, c.Pre)
	if !stdFailures(&o, res, ctx) {
		o.O.Sample = map[string]any{"ctx": ctx}
		return o.O
	}
	maxRows := 0
	prevLen := -1
	tooTall := false
	prevBuf := ""
	var prevPrompt []string // the prompt shown with the frame before (it may change during the call)
	for i := range res.Waits {
		sn := &res.Waits[i]
		if sn.Kind != "main" || sn.Local == "isearch" {
			continue
		}
		lastBuf := prevBuf
		prevBuf = sn.Line
		lastPrompt := prevPrompt
		// the library's own status line ("Recording macro: ...") is shown under the input from
		// the key that starts a keyboard macro on; the API does not expose it
		recording := false
		for k := 0; k < sn.Step && k < len(c.Plan); k++ {
			if c.Plan[k].Tag == "start-kbd-macro" {
				recording = true
			}
		}
		if c.Dyn != "" {
			// the prompt shown at this wait
			promptLines = append([]string{}, basePrompt...)
			last := &promptLines[len(promptLines)-1]
			switch {
			case c.Dyn == "len":
				*last += strings.Repeat("+", len([]rune(sn.Line))%3)
			case sn.Main == "vi-command":
				*last = ":" + *last
			case sn.Main == "vi-insert":
				*last = "(insert)" + *last
			default:
				*last = "@@" + *last
			}
			o.Add("frames_with_a_prompt_that_changes_width_during_the_call", 1)
		}
		prevPrompt = promptLines
		if lastPrompt == nil {
			lastPrompt = promptLines
		}
		if len(o.O.Findings) > 0 {
			// the screen state of this call is already wrong: later frames would only repeat it
			o.Add("frames_not_judged_after_a_wrong_frame", 1)
			continue
		}
		if sn.Unk > 0 {
			o.Inc("frame with an escape sequence the emulator does not model")
			continue
		}
		// bound: the input area (plus the helper row below it) must fit the screen; once a frame
		// of this call did not, the rest of the call is not judged (no terminal can honour
		// relative cursor moves beyond its height, the screen state is undefined from then on)
		if tooTall {
			o.Add("frames_skipped_after_a_frame_taller_than_the_screen", 1)
			continue
		}
		pwid := widthOf(promptLines[len(promptLines)-1])
		rowsNeeded := len(promptLines) - 1 + 1
		for k, ln := range splitLines([]rune(sn.Line)) {
			lw := widthOf(strings.ReplaceAll(string(ln), "\t", "     ")) + pwid
			rows := (lw + c.W) / c.W // one more row when the line fills a row exactly
			_ = k
			rowsNeeded += rows
		}
		if sn.Hint != "" {
			rowsNeeded += widthOf(sn.Hint) / c.W
		}
		if recording {
			rowsNeeded += 1 + (20+4*sn.Step)/c.W
			o.Add("frames_with_the_macro_recording_status_line", 1)
		}
		if rowsNeeded >= c.H-1 {
			o.Add("frames_skipped_taller_than_screen", 1)
			tooTall = true
			continue
		}
		o.O.Events++
		vs, ok := judgeSnap(sn, c.W, promptLines)
		v := vs[0]
		if !vs[0].OK && vs[1].OK {
			v = vs[1]
		}
		nl := strings.Count(sn.Line, "\n")
		wrapClass := "short"
		lw := widthOf(lastLine(sn.Line))
		pw := widthOf(promptLines[len(promptLines)-1])
		tot := lw
		if nl == 0 {
			tot += pw
		}
		switch {
		case tot > 0 && tot%c.W == 0:
			wrapClass = "exact-full"
		case tot > c.W:
			wrapClass = "wrapped"
		}
		grow := "same"
		if prevLen >= 0 {
			if len(sn.Line) > prevLen {
				grow = "grew"
			} else if len(sn.Line) < prevLen {
				grow = "shrank"
			}
		}
		prevLen = len(sn.Line)
		curClass := "mid"
		switch {
		case sn.Pos == 0:
			curClass = "start"
		case sn.Pos >= len([]rune(sn.Line)):
			curClass = "end"
		}
		o.Cover(fmt.Sprintf("nl%d|%s|%s|%s|%s", min(nl, 3), wrapClass, contentClass(sn.Line), curClass, grow))
		if vs[0].OK != vs[1].OK {
			o.Add("frames_model_dependent", 1)
		}
		// the cause class of a frame considers the frame before it too: what is painted (and
		// where the library believes the cursor is) depends on the transition
		causes := c04Primary(append(c04Causes(promptLines, []rune(sn.Line), c.W), c04Causes(lastPrompt, []rune(lastBuf), c.W)...))
		if !ok {
			sig := fmt.Sprintf("frame-wrong|%s", causes)
			o.Viol(sig, ctx+fmt.Sprintf(" wait=%d buffer=%q pos=%d cmd=%s: %s: %s\nxterm-model screen=%q\nvte-model screen=%q", sn.Idx, sn.Line, sn.Pos, sn.Cmd, v.Why, v.Detail, gridText(sn.Grid[0], 12), gridText(sn.Grid[1], 12)))
			continue
		}
		// (f) cursor cell, judged under the model(s) in which the frame is right
		curOK := false
		var curWhy string
		for m := 0; m < 2; m++ {
			if !vs[m].OK {
				continue
			}
			if sn.CurRow == vs[m].CurRow && (sn.CurCol == vs[m].CurCol || vs[m].CurFree) {
				curOK = true
			} else {
				curWhy = fmt.Sprintf("cursor at (%d,%d) pending-wrap=%v, buffer position %d is cell (%d,%d)", sn.CurRow, sn.CurCol, sn.Pend, sn.Pos, vs[m].CurRow, vs[m].CurCol)
			}
		}
		posRune := rune(0)
		if rs := []rune(sn.Line); sn.Pos < len(rs) {
			posRune = rs[sn.Pos]
		}
		if !curOK && !(posRune != 0 && vt.RuneWidth(posRune) == 0) && posRune != '\n' {
			o.Viol(fmt.Sprintf("cursor-cell-wrong|%s", causes), ctx+fmt.Sprintf(" wait=%d buffer=%q cmd=%s: %s screen=%q", sn.Idx, sn.Line, sn.Cmd, curWhy, gridText(sn.Grid[0], 12)))
		}
		// (e) remnants of earlier, taller frames
		if v.RowsUsed > maxRows {
			maxRows = v.RowsUsed
		} else if sn.Hint == "" && sn.Local == "" && !recording {
			for r := v.RowsUsed; r < maxRows; r++ {
				bad := -1
				for m := 0; m < 2 && bad < 0; m++ {
					if r < len(sn.Grid[m]) {
						for col, cell := range sn.Grid[m][r] {
							if !blankCell(cell) {
								bad = col
								break
							}
						}
					}
				}
				if bad >= 0 && !rowBlankAnyModel(sn, r) {
					o.Viol("remnant-below-shorter-frame|"+causes, ctx+fmt.Sprintf(" wait=%d buffer=%q: row %d (used by an earlier frame of this call) is not blank: %q", sn.Idx, sn.Line, r, vt.CellsText(sn.Grid[0][r])))
					break
				}
			}
		}
	}
	if env.Verbose {
		o.O.Trace = res
	}
	o.O.Sample = map[string]any{"ctx": ctx, "hist": c.Hist, "plan": qsteps(c.Plan), "frames": o.O.Events}
	return o.O
}

func rowBlankAnyModel(sn *sess.Snap, r int) bool {
	for m := 0; m < 2; m++ {
		if r >= len(sn.Grid[m]) {
			return true
		}
		blank := true
		for _, cell := range sn.Grid[m][r] {
			if !blankCell(cell) {
				blank = false
				break
			}
		}
		if blank {
			return true
		}
	}
	return false
}

func init() {
	fw.Register(&fw.Prop{
		ID:        "C04",
		Level:     "exploration",
		NeedsTerm: true,
		Rule: "sessions that recall preloaded history entries (ASCII, Latin-1, CJK wide, combining, tabs, embedded newlines; display widths W*k-2..W*k+2 minus the prompt) and then edit/move with real commands, on terminals 8-120 x 6-40 with 9 prompt shapes, optionally started near the bottom of the screen, one Emacs session in four with an application command that shows status texts under the line (Hint.Set) of widths W-1, W, W+1, 2W; half of those while a keyboard macro is being recorded (the library's own status line above the text); one session in five with a prompt whose last line changes width during the call (application prompt function depending on the buffer length, or show-mode-in-prompt with mode strings of different widths and Vi scripts going through insert mode), the expected prompt being computed per wait; at every main wait the emulator grid (two ESC[K models; a frame is wrong only if wrong under both) is compared with an independent layout (prompt, wrapping incl. wide characters at the margin, one row per embedded newline with a free start column, blank elsewhere, cursor cell, no remnants of earlier taller frames). " +
			"distinct non-trivial = distinct (newline count, wrap-boundary class, content class, cursor class, grew/shrank) tuples among judged frames",
		Assumptions: []string{"the input area fits the screen height", "history-autosuggest off, no syntax highlighter, no right prompt", "tab width: any single width 1-8 explaining the frame is accepted", "start column of continuation lines is free (cells left of it are don't-care)"},
		N: func(tier string) int {
			if tier == "thorough" {
				return 60000
			}
			return 2500
		},
		Gen: c04Gen,
		Run: c04Run,
	})
}
