package props

import (
	"encoding/json"
	"fmt"
	"math/rand"
	"strings"

	"github.com/reeflective/readline"

	"verif/fw"
	"verif/sess"
)

// C14: completion only rewrites the word being completed.

type c14Case struct {
	shellCfg
	L0     string   `json:"l0"`
	Back   int      `json:"back"`   // cursor moved back by this many characters
	Values []string `json:"values"` // what the completer offers
	Descs  []string `json:"descs,omitempty"`
	Tagged bool     `json:"tagged"`
	NoSp   bool     `json:"nospace"`
	Keys   []string `json:"keys"` // tab | backtab | down | up | interrupt | type | ret
	ICase  bool     `json:"icase"`
	// second completion round in the same call: text typed after the first round, then keys
	// an incremental history search started and left earlier in the same call (the buffer is
	// emptied again before the text is typed)
	Searched string `json:"searched,omitempty"` // "" | abort | accept
	// a list is displayed without a selected candidate and text is typed under it before the menu keys
	ListFirst bool     `json:"list_first,omitempty"`
	Auto      bool     `json:"auto,omitempty"` // set autocomplete on
	Text2     string   `json:"text2,omitempty"`
	Keys2     []string `json:"keys2,omitempty"`
}

var c14Lines = []string{"", "git ", "git c", "git co", "echo foo ba", "ls -la /tm", "x", "cmd --fl", "a b c d", "wörld 世", "say \"quoted wo", "path/to/fi", "echo   spaced  w", "tail\\ with\\ esc", "UPPER lo"}
var c14Pool = []string{"commit", "checkout", "config", "clone", "foo", "foobar", "fox", "bar", "baz", "--flag", "--flag=value", "file.txt", "file.go", "with space", "世界", "wörld", "Commit", "LOWER", "lower", "a", "b", "word", "work", "wo", "/tmp", "/tmpfile", "fi", "x1", "x2", "x3", "x4", "x5", "x6", "x7", "x8"}

// wordStart: position (in runes) after the last unescaped blank in rs[:c0].
func wordStart(rs []rune, c0 int) int {
	ws := 0
	for i := 0; i < c0 && i < len(rs); i++ {
		if (rs[i] == ' ' || rs[i] == '\t' || rs[i] == '\n') && (i == 0 || rs[i-1] != '\\') {
			ws = i + 1
		}
	}
	return ws
}

func plainWordStart(rs []rune, c0 int) int {
	ws := 0
	for i := 0; i < c0 && i < len(rs); i++ {
		if rs[i] == ' ' || rs[i] == '\t' || rs[i] == '\n' {
			ws = i + 1
		}
	}
	return ws
}

func c14Gen(r *rand.Rand, tier string, idx int) any {
	c := c14Case{}
	c.Mode = pick(r, []string{"emacs", "emacs", "vi"})
	c.W, c.H = 60+r.Intn(60), 16+r.Intn(20)
	c.ICase = r.Intn(3) == 0
	c.Inputrc = "set history-autosuggest off\nset convert-meta off\nset input-meta on\nset output-meta on\n"
	if c.ICase {
		c.Inputrc += "set completion-ignore-case on\n"
	}
	if r.Intn(6) == 0 {
		// as-you-type completion: the candidates are regenerated at every redisplay, also after
		// a pure cursor movement to another word
		c.Inputrc += "set autocomplete on\n"
		c.Auto = true
	}
	c.L0 = pick(r, c14Lines)
	rs := []rune(c.L0)
	if len(rs) > 0 && (r.Intn(3) == 0 || c.Auto && r.Intn(2) == 0) {
		c.Back = r.Intn(len(rs) + 1)
	}
	c0 := len(rs) - c.Back
	ws := wordStart(rs, c0)
	word := string(rs[ws:c0])
	// candidates: some extend the word being completed, some do not
	n := 1 + r.Intn(8)
	seen := map[string]bool{}
	for len(c.Values) < n {
		var v string
		switch r.Intn(4) {
		case 0, 1:
			v = word + pick(r, []string{"mit", "x", "nfig", "o", "bar", "-long-suffix", "界", "1", "2", ""})
		case 2:
			v = pick(r, c14Pool)
		default:
			if word != "" && r.Intn(2) == 0 {
				v = strings.ToUpper(word) + pick(r, []string{"A", "b"})
			} else {
				v = pick(r, c14Pool)
			}
		}
		if v == "" || seen[v] {
			continue
		}
		seen[v] = true
		c.Values = append(c.Values, v)
	}
	if r.Intn(3) == 0 {
		for i := range c.Values {
			c.Descs = append(c.Descs, pick(r, []string{"first description", "second", "", "shared", "shared"})+fmt.Sprint(i%2))
		}
	}
	c.Tagged = r.Intn(4) == 0
	c.NoSp = r.Intn(4) == 0
	if c.Mode == "emacs" && r.Intn(4) == 0 {
		// (Emacs only: in the Vi insert keymap C-g does not leave the search)
		c.Searched = pick(r, []string{"abort", "accept"})
		c.Hist = []string{"echo hello", "ls -la"}
	}
	menuKeys := []string{"tab", "tab", "tab", "backtab", "down", "up", "left", "right", "ctrl-n", "ctrl-p", "search", "accept-and"}
	nk := 1 + r.Intn(6)
	for i := 0; i < nk; i++ {
		c.Keys = append(c.Keys, pick(r, menuKeys))
	}
	if r.Intn(5) == 0 {
		// a list displayed without a selected candidate (possible-completions, or a first Tab
		// with menu-complete-display-prefix), then text typed under it that goes on towards an
		// offered value, then the menu keys: the word being completed is the one of the line as
		// it is when the completion key arrives, not as it was when the list was made
		var lead []string
		if c.Mode == "emacs" && r.Intn(2) == 0 {
			lead = append(lead, pick(r, []string{"list", "list-eq"}))
		} else {
			c.Inputrc += "set menu-complete-display-prefix on\n"
			lead = append(lead, "tab")
		}
		ext := ""
		for _, v := range c.Values {
			if strings.HasPrefix(v, word) && len(v) > len(word) {
				ext = v[len(word):]
				break
			}
		}
		if ext == "" {
			ext = "zq"
		}
		er := []rune(ext)
		for i, n := 0, 1+r.Intn(2); i < n && i < len(er); i++ {
			lead = append(lead, "lit:"+string(er[i]))
		}
		if r.Intn(4) == 0 {
			lead = append(lead, "lit:\x7f") // and a character deleted again
		}
		c.Keys = append(lead, c.Keys...)
		c.ListFirst = true
	}
	if r.Intn(3) == 0 {
		// a second round on the same shell: the first one ends by typing a character
		c.Keys = append(c.Keys, pick(r, []string{"type", "space"}))
		w2 := pick(r, c.Values)
		if rs := []rune(w2); r.Intn(2) == 0 && len(rs) > 1 {
			w2 = string(rs[:1+r.Intn(len(rs)-1)])
		}
		c.Text2 = " " + w2
		for i, nk := 0, 1+r.Intn(4); i < nk; i++ {
			c.Keys2 = append(c.Keys2, pick(r, menuKeys))
		}
		c.Keys2 = append(c.Keys2, pick(r, []string{"interrupt", "interrupt", "type", "space", "ret", "ret"}))
		return c
	}
	c.Keys = append(c.Keys, pick(r, []string{"interrupt", "interrupt", "type", "space", "ret", "ret"}))
	return c
}

func c14Completer(c *c14Case) func([]rune, int) readline.Completions {
	return func(line []rune, cur int) readline.Completions {
		var comps readline.Completions
		if len(c.Descs) == len(c.Values) && len(c.Descs) > 0 {
			var args []string
			for i, v := range c.Values {
				args = append(args, v, c.Descs[i])
			}
			comps = readline.CompleteValuesDescribed(args...)
		} else {
			comps = readline.CompleteValues(c.Values...)
		}
		if c.Tagged {
			comps = comps.Tag("candidates")
		}
		if c.NoSp {
			comps = comps.NoSpace('/', '=')
		}
		return comps
	}
}

var c14KeyBytes = map[string]string{"tab": "\t", "backtab": "\x1b[Z", "down": "\x1b[B", "up": "\x1b[A", "left": "\x1b[D", "right": "\x1b[C", "ctrl-n": "\x0e", "ctrl-p": "\x10",
	"search": "\x06", "accept-and": "\x00", "list": "\x1b?", "list-eq": "\x1b=", "interrupt": "\x03", "type": "z", "space": " ", "ret": "\r"}

func c14Run(env *fw.Env, raw json.RawMessage) fw.Outcome {
	var c c14Case
	unmarshal(raw, &c)
	var o fw.Out
	cfg := c.cfg()
	cfg.Setup = func(s *sess.Session) { s.Sh.Completer = c14Completer(&c) }
	s := sess.New(env.T, env.Scratch, cfg)
	defer s.Close()
	var plan []sess.Step
	if c.Searched != "" {
		leave := "\x07"
		if c.Searched == "accept" {
			leave = "\x1b" // the match stays in the line
		}
		for _, k := range []string{"zzz", "\x12", "hel", leave, "\x05", "\x15"} {
			plan = append(plan, sess.Step{W: k, Tag: "searched"})
		}
	}
	if c.L0 != "" {
		plan = append(plan, sess.Step{W: c.L0, Tag: "type"})
	}
	for i := 0; i < c.Back; i++ {
		plan = append(plan, sess.Step{W: "\x02", Tag: "back"})
	}
	first := len(plan)
	for _, k := range c.Keys {
		if strings.HasPrefix(k, "lit:") {
			plan = append(plan, sess.Step{W: k[4:], Tag: "lit"})
			continue
		}
		plan = append(plan, sess.Step{W: c14KeyBytes[k], Tag: k})
	}
	if c.Text2 != "" {
		// one character per read: every intermediate state is an input wait
		for _, ch := range c.Text2 {
			plan = append(plan, sess.Step{W: string(ch), Tag: "text2"})
		}
		for _, k := range c.Keys2 {
			plan = append(plan, sess.Step{W: c14KeyBytes[k], Tag: k})
		}
	}
	res := s.Call(plan, retExit)
	ctx := fmt.Sprintf("mode=%s autocomplete=%v searched-before=%q L0=%q back=%d values=%q descs=%v tagged=%v nospace=%v icase=%v keys=%v", c.Mode, c.Auto, c.Searched, c.L0, c.Back, c.Values, len(c.Descs) > 0, c.Tagged, c.NoSp, c.ICase, c.Keys)
	if !stdFailures(&o, res, ctx) {
		o.O.Sample = map[string]any{"ctx": ctx}
		return o.O
	}
	after := map[int]*sess.Snap{}
	for i := range res.Waits {
		w := &res.Waits[i]
		if w.Kind == "main" {
			after[w.Step-1] = w
		}
	}
	w0, ok := after[first-1]
	if !ok || w0.Line != c.L0 {
		o.Inc("the buffer before the first completion key is not the planned one")
		return o.O
	}
	// The word being completed is fixed when a completion starts: the anchor is the last state
	// observed while no menu was active.
	anchor, prev := w0, w0
	isCompKey := map[string]bool{"tab": true, "backtab": true, "down": true, "up": true, "left": true, "right": true, "ctrl-n": true, "ctrl-p": true, "search": true}
	for i := first; i < len(plan); i++ {
		w, ok := after[i]
		if !ok {
			// the call ended at this key
			if c.ListFirst && prev.Line == anchor.Line && plan[i].Tag == "interrupt" {
				// a list is on screen but no candidate is selected: whether that is "an active
				// completion menu" is not said; C-c ending the call there is not judged
				o.Add("interrupts_under_a_list_without_a_selected_candidate_not_judged", 1)
				break
			}
			if plan[i].Tag == "interrupt" && (prev.Local == "menu-select" || prev.Local == "isearch") {
				o.Viol("interrupt-in-menu-ended-the-call", ctx+fmt.Sprintf(" key %d; returned=%v err=%q", i-first, res.Returned, res.Err))
			}
			break
		}
		key := plan[i].Tag
		if c.Mode == "vi" && w.Main != "vi-insert" {
			// an escape sequence that is not bound in the insert keymap left insert mode:
			// the remaining keys are Vi commands, not completion keys
			o.Add("vi_cases_that_left_insert_mode", 1)
			break
		}
		active := prev.Local == "menu-select" || prev.Local == "isearch"
		if !active {
			anchor = prev
		}
		L0 := []rune(anchor.Line)
		c0 := anchor.Pos
		ws := wordStart(L0, c0)
		pre, post := string(L0[:ws]), string(L0[c0:])
		// the statement does not define word boundaries: a blank escaped with a backslash
		// may or may not separate words, both readings are accepted
		pre2 := string(L0[:plainWordStart(L0, c0)])
		wordCls := "empty-word"
		switch {
		case ws < c0 && c0 < len(L0) && L0[c0] != ' ':
			wordCls = "mid-word"
		case ws < c0:
			wordCls = "end-of-word"
		}
		round := "first-round"
		if c.Text2 != "" && i >= first+len(c.Keys) {
			round = "later-round"
		}
		// framed(line): line == pre + v + post for an offered v; closed menus may add a blank
		framed := func(line string, closed bool) (string, bool) {
			for _, v := range c.Values {
				for _, p := range []string{pre, pre2} {
					if line == p+v+post || (closed && line == p+v+" "+post) {
						return v, true
					}
				}
			}
			return "", false
		}
		o.O.Events++
		o.Cover(fmt.Sprintf("%s|%s|n%d|%s|%v|%s", key, wordCls, min(len(c.Values), 4), w.Local, c.ICase, round))
		if key == "accept-and" && prev.Local == "isearch" {
			// the candidate is accepted while the input line is not observable: not judged further
			o.Add("accept_and_menu_complete_inside_menu_isearch_not_judged", 1)
			break
		}
		if w.Local == "isearch" {
			// while the candidates are searched incrementally the API exposes the search
			// minibuffer, not the input line: judged again at the next wait outside it
			o.Add("waits_in_menu_isearch_not_judged", 1)
			prev = &sess.Snap{Line: prev.Line, Pos: prev.Pos, Local: "isearch"}
			continue
		}
		switch {
		case isCompKey[key] && (active || key == "tab" || key == "backtab"):
			if w.Line == string(L0) {
				break // nothing inserted (no candidate, or the menu shows without insertion)
			}
			if _, ok := framed(w.Line, w.Local != "menu-select" && w.Local != "isearch"); !ok {
				cls := "text-outside-the-word-changed"
				if strings.HasPrefix(w.Line, pre) && strings.HasSuffix(w.Line, post) && len(w.Line) >= len(pre)+len(post) {
					cls = "word-is-not-an-offered-value"
				}
				if c0 == 0 && len(L0) > 0 {
					wordCls += "|cursor-at-line-start-before-a-word"
				}
				// one narrow class of its own: with removable suffixes declared (NoSpace), the blank in
				// front of the cursor is taken away by the insertion of a candidate for an empty word
				if c.NoSp && ws == c0 && ws > 0 && L0[ws-1] == ' ' {
					for _, v := range c.Values {
						if w.Line == string(L0[:ws-1])+v+post {
							cls, wordCls = "blank-before-an-empty-word-removed", "nospace-completions"
						}
					}
				}
				o.Viol("completion-framing|"+cls+"|"+wordCls, ctx+fmt.Sprintf(" after key %d (%s, %s): buffer %q; expected %q + <offered value> + %q", i-first, key, round, w.Line, pre, post))
			}
		case key == "accept-and" && prev.Local == "menu-select":
			// accept-and-menu-complete: the inserted candidate v1 becomes part of the line and
			// the next candidate is inserted after it
			v1, ok := framed(prev.Line, false)
			if !ok {
				if w.Line != prev.Line {
					o.Viol("completion-framing|accept-and-menu-complete-without-a-candidate-changed-the-buffer", ctx+fmt.Sprintf(" key %d: %q -> %q", i-first, prev.Line, w.Line))
				}
				break
			}
			o.Add("accept_and_menu_complete_with_a_candidate", 1)
			good, stale := false, false
			word := L0[ws:c0]
			v1r := []rune(v1)
			for _, p := range []string{pre, pre2} {
				if w.Line == p+v1+post || w.Line == p+v1+" "+post {
					good = true
				}
				for _, v2 := range c.Values {
					if w.Line == p+v1+v2+post || w.Line == p+v1+" "+v2+post {
						good = true
					}
					if len(word) > 0 && len(word) <= len(v1r) && w.Line == p+string(v1r[:len(v1r)-len(word)])+v2+post {
						stale = true
					}
				}
			}
			switch {
			case good:
			case stale:
				o.Viol("accept-and-menu-complete-cuts-the-accepted-candidate-by-the-length-of-the-completed-word", ctx+fmt.Sprintf(" key %d (%s): %q with %q inserted -> %q", i-first, round, string(L0), v1, w.Line))
			default:
				o.Viol("completion-framing|after-accept-and-menu-complete|"+wordCls, ctx+fmt.Sprintf(" key %d (%s): %q with %q inserted -> %q", i-first, round, string(L0), v1, w.Line))
			}
			// what follows cycles from the accepted state: not judged
			i = len(plan)
		case (key == "type" || key == "space") && prev.Local == "menu-select":
			// typing accepts the inserted candidate and inserts the character after it
			ch := c14KeyBytes[key]
			if v, ok := framed(prev.Line, false); ok && prev.Line != string(L0) {
				o.Add("candidates_accepted_by_typing", 1)
				okAcc := false
				for _, p := range []string{pre, pre2} {
					if w.Line == p+v+ch+post {
						okAcc = true
					}
					// a suffix the completer declared removable may be dropped
					if vr := []rune(v); c.NoSp && len(vr) > 0 && (vr[len(vr)-1] == '/' || vr[len(vr)-1] == '=') && w.Line == p+string(vr[:len(vr)-1])+ch+post {
						okAcc = true
					}
				}
				if !okAcc {
					o.Viol("accepting-by-typing-changes-the-candidate|"+key, ctx+fmt.Sprintf(" after key %d (%s, %s): buffer %q, before the key %q (candidate %q inserted)", i-first, key, round, w.Line, prev.Line, v))
				}
			}
		case key == "interrupt" && active:
			if w.Line != string(L0) || w.Pos != c0 {
				o.Viol("interrupt-in-menu-does-not-restore|"+wordCls, ctx+fmt.Sprintf(" after C-c (%s): buffer %q pos %d, expected %q pos %d", round, w.Line, w.Pos, string(L0), c0))
			}
			o.Add("interrupts_in_active_menu", 1)
			if i == len(plan)-1 && res.Returned && res.Err == "" && res.Line != string(L0) {
				o.Viol("line-returned-after-interrupted-menu-differs", ctx+fmt.Sprintf(" returned %q, expected %q", res.Line, string(L0)))
			}
		}
		prev = w
		if len(o.O.Findings) > 0 {
			break
		}
	}
	if env.Verbose {
		var tr []string
		for i := range plan {
			if w, ok := after[i]; ok {
				tr = append(tr, fmt.Sprintf("%d %s -> %q pos=%d local=%s", i, plan[i].Tag, w.Line, w.Pos, w.Local))
			}
		}
		o.O.Trace = tr
	}
	if c.ListFirst {
		o.Add("cases_with_text_typed_under_a_displayed_list", 1)
	}
	if c.Auto {
		o.Add("cases_with_autocomplete_on", 1)
	}
	o.O.Sample = map[string]any{"mode": c.Mode, "L0": c.L0, "back": c.Back, "values": c.Values, "keys": c.Keys}
	return o.O
}

func init() {
	fw.Register(&fw.Prop{
		ID:        "C14",
		Level:     "exploration",
		NeedsTerm: true,
		Rule: "one case in six with autocomplete on (half of those with the cursor moved back into another word), one in five beginning with a list displayed without a selected candidate (possible-completions, or a first Tab with menu-complete-display-prefix) and 1-2 characters typed under it; buffers (15 shapes: empty, trailing blank, partial words, quotes, escaped blanks, multi-byte) with the cursor at the end or moved back 0..len characters, candidate sets of 1-8 values returned by the harness completer (extensions of the word, unrelated values, case variants, Unicode, values with blanks; optionally described, tagged, NoSpace('/','=')), completion-ignore-case on/off, key sequences of 1-6 menu keys (Tab, Shift-Tab, arrows, C-n, C-p, C-f = incremental search of the candidates, C-@ = accept-and-menu-complete) ended by C-c, a typed character, a blank or RET; one case in three goes on with a second round on the same shell (a word typed after the first round that is an offered value or a prefix of one, then menu keys again). The word being completed is anchored at the last wait without an active menu. At every wait after a menu key: buffer == anchor[:ws] + v + anchor[c0:] for an offered v (a blank after v is accepted once the menu is closed), or unchanged; typing a character with a candidate inserted gives anchor[:ws] + v + char + anchor[c0:] (v may lose a trailing '/' or '=' the completer declared removable); C-@ keeps the accepted candidate whole; C-c in an active menu restores the anchor buffer and cursor and the call goes on. " +
			"distinct non-trivial = distinct (key, word class, candidate count class, local keymap, ignore-case, round) tuples",
		Assumptions: []string{"word start = position after the last unescaped blank before the cursor", "no Prefix()/Suffix() modifiers on the completions", "while the candidates are searched incrementally the API exposes the search minibuffer instead of the input line: those waits are not judged, the next wait outside the minibuffer is", "Vi cases stop being judged once an unbound escape sequence has left insert mode"},
		N: func(tier string) int {
			if tier == "thorough" {
				return 60000
			}
			return 3000
		},
		Gen: c14Gen,
		Run: c14Run,
	})
}
