package props

import (
	"encoding/json"
	"fmt"
	"math/rand"
	"strings"

	"github.com/reeflective/readline"

	"verif/fw"
	"verif/sess"
)

// C14: completion only rewrites the word being completed.

type c14Case struct {
	shellCfg
	L0     string   `json:"l0"`
	Back   int      `json:"back"`   // cursor moved back by this many characters
	Values []string `json:"values"` // what the completer offers
	Descs  []string `json:"descs,omitempty"`
	Tagged bool     `json:"tagged"`
	NoSp   bool     `json:"nospace"`
	Keys   []string `json:"keys"` // tab | backtab | down | up | interrupt | type | ret
	ICase  bool     `json:"icase"`
}

var c14Lines = []string{"", "git ", "git c", "git co", "echo foo ba", "ls -la /tm", "x", "cmd --fl", "a b c d", "wörld 世", "say \"quoted wo", "path/to/fi", "echo   spaced  w", "tail\\ with\\ esc", "UPPER lo"}
var c14Pool = []string{"commit", "checkout", "config", "clone", "foo", "foobar", "fox", "bar", "baz", "--flag", "--flag=value", "file.txt", "file.go", "with space", "世界", "wörld", "Commit", "LOWER", "lower", "a", "b", "word", "work", "wo", "/tmp", "/tmpfile", "fi", "x1", "x2", "x3", "x4", "x5", "x6", "x7", "x8"}

// wordStart: position (in runes) after the last unescaped blank in rs[:c0].
func wordStart(rs []rune, c0 int) int {
	ws := 0
	for i := 0; i < c0 && i < len(rs); i++ {
		if (rs[i] == ' ' || rs[i] == '\t' || rs[i] == '\n') && (i == 0 || rs[i-1] != '\\') {
			ws = i + 1
		}
	}
	return ws
}

func plainWordStart(rs []rune, c0 int) int {
	ws := 0
	for i := 0; i < c0 && i < len(rs); i++ {
		if rs[i] == ' ' || rs[i] == '\t' || rs[i] == '\n' {
			ws = i + 1
		}
	}
	return ws
}

func c14Gen(r *rand.Rand, tier string, idx int) any {
	c := c14Case{}
	c.Mode = pick(r, []string{"emacs", "emacs", "vi"})
	c.W, c.H = 60+r.Intn(60), 16+r.Intn(20)
	c.ICase = r.Intn(3) == 0
	c.Inputrc = "set history-autosuggest off\nset convert-meta off\nset input-meta on\nset output-meta on\n"
	if c.ICase {
		c.Inputrc += "set completion-ignore-case on\n"
	}
	c.L0 = pick(r, c14Lines)
	rs := []rune(c.L0)
	if len(rs) > 0 && r.Intn(3) == 0 {
		c.Back = r.Intn(len(rs) + 1)
	}
	c0 := len(rs) - c.Back
	ws := wordStart(rs, c0)
	word := string(rs[ws:c0])
	// candidates: some extend the word being completed, some do not
	n := 1 + r.Intn(8)
	seen := map[string]bool{}
	for len(c.Values) < n {
		var v string
		switch r.Intn(4) {
		case 0, 1:
			v = word + pick(r, []string{"mit", "x", "nfig", "o", "bar", "-long-suffix", "界", "1", "2", ""})
		case 2:
			v = pick(r, c14Pool)
		default:
			if word != "" && r.Intn(2) == 0 {
				v = strings.ToUpper(word) + pick(r, []string{"A", "b"})
			} else {
				v = pick(r, c14Pool)
			}
		}
		if v == "" || seen[v] {
			continue
		}
		seen[v] = true
		c.Values = append(c.Values, v)
	}
	if r.Intn(3) == 0 {
		for i := range c.Values {
			c.Descs = append(c.Descs, pick(r, []string{"first description", "second", "", "shared", "shared"})+fmt.Sprint(i%2))
		}
	}
	c.Tagged = r.Intn(4) == 0
	c.NoSp = r.Intn(4) == 0
	nk := 1 + r.Intn(6)
	for i := 0; i < nk; i++ {
		c.Keys = append(c.Keys, pick(r, []string{"tab", "tab", "tab", "backtab", "down", "up"}))
	}
	c.Keys = append(c.Keys, pick(r, []string{"interrupt", "interrupt", "type", "ret", "ret"}))
	return c
}

func c14Completer(c *c14Case) func([]rune, int) readline.Completions {
	return func(line []rune, cur int) readline.Completions {
		var comps readline.Completions
		if len(c.Descs) == len(c.Values) && len(c.Descs) > 0 {
			var args []string
			for i, v := range c.Values {
				args = append(args, v, c.Descs[i])
			}
			comps = readline.CompleteValuesDescribed(args...)
		} else {
			comps = readline.CompleteValues(c.Values...)
		}
		if c.Tagged {
			comps = comps.Tag("candidates")
		}
		if c.NoSp {
			comps = comps.NoSpace('/', '=')
		}
		return comps
	}
}

var c14KeyBytes = map[string]string{"tab": "\t", "backtab": "\x1b[Z", "down": "\x1b[B", "up": "\x1b[A", "interrupt": "\x03", "type": "z", "ret": "\r"}

func c14Run(env *fw.Env, raw json.RawMessage) fw.Outcome {
	var c c14Case
	unmarshal(raw, &c)
	var o fw.Out
	cfg := c.cfg()
	cfg.Setup = func(s *sess.Session) { s.Sh.Completer = c14Completer(&c) }
	s := sess.New(env.T, env.Scratch, cfg)
	defer s.Close()
	var plan []sess.Step
	if c.L0 != "" {
		plan = append(plan, sess.Step{W: c.L0, Tag: "type"})
	}
	for i := 0; i < c.Back; i++ {
		plan = append(plan, sess.Step{W: "\x02", Tag: "back"})
	}
	first := len(plan)
	for _, k := range c.Keys {
		plan = append(plan, sess.Step{W: c14KeyBytes[k], Tag: k})
	}
	res := s.Call(plan, retExit)
	ctx := fmt.Sprintf("mode=%s L0=%q back=%d values=%q descs=%v tagged=%v nospace=%v icase=%v keys=%v", c.Mode, c.L0, c.Back, c.Values, len(c.Descs) > 0, c.Tagged, c.NoSp, c.ICase, c.Keys)
	if !stdFailures(&o, res, ctx) {
		o.O.Sample = map[string]any{"ctx": ctx}
		return o.O
	}
	after := map[int]*sess.Snap{}
	for i := range res.Waits {
		w := &res.Waits[i]
		if w.Kind == "main" {
			after[w.Step-1] = w
		}
	}
	w0, ok := after[first-1]
	if !ok || w0.Line != c.L0 {
		o.Inc("the buffer before the first completion key is not the planned one")
		return o.O
	}
	L0 := []rune(w0.Line)
	c0 := w0.Pos
	ws := wordStart(L0, c0)
	pre, post := string(L0[:ws]), string(L0[c0:])
	wordCls := "empty-word"
	switch {
	case ws < c0 && c0 < len(L0) && L0[c0] != ' ':
		wordCls = "mid-word"
	case ws < c0:
		wordCls = "end-of-word"
	}
	menuWasActive := false
	for i := first; i < len(plan); i++ {
		w, ok := after[i]
		if !ok {
			break
		}
		key := plan[i].Tag
		o.O.Events++
		o.Cover(fmt.Sprintf("%s|%s|n%d|%s|%v", key, wordCls, min(len(c.Values), 4), w.Local, c.ICase))
		switch key {
		case "tab", "backtab", "down", "up":
			if w.Line == string(L0) {
				// nothing inserted (no candidate, or the menu shows without insertion)
				menuWasActive = menuWasActive || w.Local == "menu-select"
				continue
			}
			// framing: L == L0[:ws] + v (+ optional blank after an accepted unique match) + L0[c0:]
			okFrame := false
			// the statement does not define word boundaries: a blank escaped with a backslash
			// may or may not separate words, both readings are accepted
			pre2 := string(L0[:plainWordStart(L0, c0)])
			for _, v := range c.Values {
				for _, p := range []string{pre, pre2} {
					if w.Line == p+v+post || (w.Local != "menu-select" && w.Line == p+v+" "+post) {
						okFrame = true
					}
				}
			}
			if !okFrame {
				cls := "text-outside-the-word-changed"
				if strings.HasPrefix(w.Line, pre) && strings.HasSuffix(w.Line, post) && len(w.Line) >= len(pre)+len(post) {
					cls = "word-is-not-an-offered-value"
				}
				if c0 == 0 && len(L0) > 0 {
					wordCls += "|cursor-at-line-start-before-a-word"
				}
				o.Viol("completion-framing|"+cls+"|"+wordCls, ctx+fmt.Sprintf(" after key %d (%s): buffer %q; expected %q + <offered value> + %q", i-first, key, w.Line, pre, post))
			}
			menuWasActive = w.Local == "menu-select"
		case "interrupt":
			if menuWasActive {
				if !res.Returned || res.Err == "" || true {
					// the call must continue with the original buffer and cursor
				}
				if w.Line != string(L0) || w.Pos != c0 {
					o.Viol("interrupt-in-menu-does-not-restore|"+wordCls, ctx+fmt.Sprintf(" after C-c: buffer %q pos %d, expected %q pos %d", w.Line, w.Pos, string(L0), c0))
				}
				o.Add("interrupts_in_active_menu", 1)
			}
			menuWasActive = false
		}
		if len(o.O.Findings) > 0 {
			break
		}
	}
	// C-c in an active menu must not end the call: the final RET returns a line without error
	for i := first; i < len(plan); i++ {
		if plan[i].Tag == "interrupt" {
			if pw, ok := after[i-1]; ok && pw.Local == "menu-select" {
				if _, cont := after[i]; !cont {
					o.Viol("interrupt-in-menu-ended-the-call", ctx+fmt.Sprintf(" returned=%v err=%q", res.Returned, res.Err))
				} else if res.Returned && res.Err == "" && res.Line != string(L0) && i == len(plan)-1 {
					o.Viol("line-returned-after-interrupted-menu-differs", ctx+fmt.Sprintf(" returned %q, expected %q", res.Line, string(L0)))
				}
			}
		}
	}
	if env.Verbose {
		var tr []string
		for i := range plan {
			if w, ok := after[i]; ok {
				tr = append(tr, fmt.Sprintf("%d %s -> %q pos=%d local=%s", i, plan[i].Tag, w.Line, w.Pos, w.Local))
			}
		}
		o.O.Trace = tr
	}
	o.O.Sample = map[string]any{"mode": c.Mode, "L0": c.L0, "back": c.Back, "values": c.Values, "keys": c.Keys}
	return o.O
}

func init() {
	fw.Register(&fw.Prop{
		ID:        "C14",
		Level:     "exploration",
		NeedsTerm: true,
		Rule: "buffers (15 shapes: empty, trailing blank, partial words, quotes, escaped blanks, multi-byte) with the cursor at the end or moved back 0..len characters, candidate sets of 1-8 values returned by the harness completer (extensions of the word, unrelated values, case variants, Unicode, values with blanks; optionally described, tagged, NoSpace), completion-ignore-case on/off, key sequences of 1-6 Tab / Shift-Tab / Down / Up followed by C-c, a typed character or RET; at every wait after a completion key: buffer == L0[:ws] + v + L0[c0:] for some offered v (a blank after v is accepted once the menu is closed), or unchanged; C-c in an active menu restores (L0, c0) and the call goes on. " +
			"distinct non-trivial = distinct (key, word class, candidate count class, local keymap, ignore-case) tuples",
		Assumptions: []string{"word start = position after the last unescaped blank before the cursor", "no Prefix()/Suffix() modifiers on the completions"},
		N: func(tier string) int {
			if tier == "thorough" {
				return 60000
			}
			return 3000
		},
		Gen: c14Gen,
		Run: c14Run,
	})
}
