package props

import (
	"encoding/json"
	"fmt"
	"math/rand"
	"strings"

	"golang.org/x/sys/unix"

	"verif/fw"
	"verif/sess"
	"verif/vt"
)

// C11: the terminal is restored on every way out of Readline.

type c11Case struct {
	shellCfg
	Buf     string `json:"buf"`            // shape of the buffer before leaving
	Where   string `json:"where"`          // emacs | vi-insert | vi-command | visual | operator-pending | vi-replace | arg-pending | emacs-arg-pending | register-pending
	Pend    string `json:"pend,omitempty"` // operator-pending: the operator keys
	Exit    string `json:"exit"`           // exit path
	Termios string `json:"termios"`        // initial termios variant
	Editor  string `json:"editor"`
	Back    int    `json:"back"`
	// an earlier call on the same Shell, made on a cooked terminal, that returned normally
	Prior string `json:"prior,omitempty"` // "" | accept | interrupt | eof
}

var c11Exits = []string{"accept-line", "accept-and-hold", "multiline-accept", "operate-and-get-next", "interrupt", "interrupt-in-menu", "interrupt-in-isearch",
	"eof-on-empty", "insert-comment", "edit-and-execute-ok", "edit-and-execute-fail", "edit-and-execute-missing", "command-panics", "input-eof", "input-eio"}

func c11Gen(r *rand.Rand, tier string, idx int) any {
	c := c11Case{}
	c.W, c.H = 30+r.Intn(60), 14+r.Intn(20)
	c.Where = pick(r, []string{"emacs", "emacs", "vi-insert", "vi-command", "visual", "operator-pending", "vi-replace", "arg-pending", "emacs-arg-pending", "register-pending"})
	c.Mode = "emacs"
	if c.Where != "emacs" && c.Where != "emacs-arg-pending" {
		c.Mode = "vi"
	}
	c.Pend = pick(r, []string{"d", "c", "y", "2d", "g~", "3c"})
	c.Exit = c11Exits[idx%len(c11Exits)]
	c.Termios = pick(r, []string{"cooked", "echo-off", "ixon-off", "odd-vmin-vtime", "cooked", "cbreak", "raw-like"})
	if r.Intn(3) == 0 {
		c.Prior = pick(r, []string{"accept", "accept", "interrupt", "eof"})
	}
	c.Inputrc = "set history-autosuggest off\n"
	if r.Intn(4) == 0 {
		c.Inputrc += "set show-mode-in-prompt on\n"
	}
	switch r.Intn(7) {
	case 0:
		c.Buf = ""
	case 1:
		c.Buf = "short line"
	case 2:
		c.Buf = strings.Repeat("wrapped text ", 1+(c.W+20)/13)
	case 3:
		c.Buf = strings.Repeat("x", c.W-2) // prompt "> " + buffer fills the row exactly
	case 4:
		c.Buf = "first line\\" // continued on a second line through AcceptMultiline
	case 5:
		c.Buf = "cursor in the middle of this"
		c.Back = 5 + r.Intn(10)
	default:
		c.Buf = "foo" // completion menu / hint cases build on this
	}
	if c.Exit == "eof-on-empty" {
		c.Buf = ""
	}
	c.Editor = "missing"
	switch c.Exit {
	case "edit-and-execute-ok":
		c.Editor = "ok"
	case "edit-and-execute-fail":
		c.Editor = "fail"
	}
	return c
}

func c11Termios(t *sess.Term, variant string) {
	tio := t.Termios()
	// start from a sane cooked terminal
	tio.Lflag |= unix.ECHO | unix.ICANON | unix.ISIG | unix.IEXTEN
	tio.Iflag |= unix.ICRNL | unix.IXON
	tio.Oflag |= unix.OPOST | unix.ONLCR
	tio.Cc[unix.VMIN], tio.Cc[unix.VTIME] = 1, 0
	switch variant {
	case "echo-off":
		tio.Lflag &^= unix.ECHO
	case "ixon-off":
		tio.Iflag &^= unix.IXON
	case "odd-vmin-vtime":
		tio.Cc[unix.VMIN], tio.Cc[unix.VTIME] = 3, 7
	case "cbreak":
		// an application's own no-echo, character-at-a-time mode
		tio.Lflag &^= unix.ICANON | unix.ECHO
	case "raw-like":
		tio.Lflag &^= unix.ICANON | unix.ECHO | unix.ISIG | unix.IEXTEN
		tio.Iflag &^= unix.ICRNL | unix.IXON
	}
	t.SetTermios(&tio)
}

func c11Run(env *fw.Env, raw json.RawMessage) fw.Outcome {
	var c c11Case
	unmarshal(raw, &c)
	var o fw.Out
	cfg := c.cfg()
	cfg.Screen = true
	cfg.NoLadder = true
	cfg.Setup = func(s *sess.Session) {
		installEditorStubs(s.Dir, c.Editor)
		s.Sh.Completer = c01Completer(0)
		s.Sh.AcceptMultiline = func(l []rune) bool { return len(l) == 0 || l[len(l)-1] != '\\' }
		s.Sh.Keymap.Register(map[string]func(){"verif-panic": func() { panic("verif: bound command panics") }})
		for _, km := range []string{"emacs", "vi-insert", "vi-command", "vi-visual"} {
			s.Sh.Config.Bind(km, "\x18\x10", "verif-panic", false)
			s.Sh.Config.Bind(km, "\x18\x08", "accept-and-hold", false)
			s.Sh.Config.Bind(km, "\x18\x0f", "operate-and-get-next", false)
			s.Sh.Config.Bind(km, "\x18#", "insert-comment", false)
			s.Sh.Config.Bind(km, "\x18\x05", "edit-and-execute-command", false)
		}
	}
	s := sess.New(env.T, env.Scratch, cfg)
	defer s.Close()
	if c.Prior != "" {
		// an earlier call of the same Shell, on a cooked terminal
		c11Termios(env.T, "cooked")
		var pexit []sess.Step
		switch c.Prior {
		case "accept":
			pexit = steps("\r")
		case "interrupt":
			pexit = steps("\x03")
		default:
			pexit = steps("\x04")
		}
		pplan := steps("earlier")
		if c.Prior == "eof" {
			pplan = nil
		}
		pres := s.Call(pplan, pexit)
		if !pres.Returned {
			o.Inc("the earlier call did not return")
			return o.O
		}
		env.T.Reset(c.W, c.H)
	}
	c11Termios(env.T, c.Termios)
	var plan []sess.Step
	add := func(w, tag string) { plan = append(plan, sess.Step{W: w, Tag: tag}) }
	if c.Buf != "" {
		add(c.Buf, "type")
	}
	if strings.HasSuffix(c.Buf, "\\") {
		add("\r", "continue")
		add("second line", "type")
	}
	for i := 0; i < c.Back; i++ {
		add("\x02", "back")
	}
	switch c.Where {
	case "vi-command":
		add("\x1b", "esc")
	case "visual":
		add("\x1b", "esc")
		if c.Buf != "" {
			add("v", "visual")
			add("h", "motion")
		}
	case "operator-pending":
		// an operator waiting for its motion when the key that leaves Readline arrives
		add("\x1b", "esc")
		add(c.Pend, "operator")
	case "vi-replace":
		add("\x1b", "esc")
		add("R", "replace-mode")
	case "arg-pending":
		add("\x1b", "esc")
		add("3", "count")
	case "emacs-arg-pending":
		add("\x1b4", "digit-argument")
	case "register-pending":
		add("\x1b", "esc")
		add("\"a", "register")
	}
	var exit []sess.Step
	insertCapable := c.Where == "emacs" || c.Where == "vi-insert"
	switch c.Exit {
	case "accept-line":
		exit = steps("\r")
	case "accept-and-hold":
		exit = steps("\x18\x08")
	case "multiline-accept":
		exit = steps("\r")
	case "operate-and-get-next":
		exit = steps("\x18\x0f")
	case "interrupt":
		exit = steps("\x03")
	case "interrupt-in-menu":
		if insertCapable {
			add("\t", "menu")
			add("\t", "menu")
		}
		exit = steps("\x03", "\x03")
	case "interrupt-in-isearch":
		if insertCapable {
			add("\x12", "isearch")
			add("o", "pattern")
		}
		exit = steps("\x03", "\x03")
	case "eof-on-empty":
		exit = steps("\x04")
		if c.Where == "vi-command" || c.Where == "visual" {
			exit = steps("\x04", "\x03")
		}
	case "insert-comment":
		exit = steps("\x18#")
	case "edit-and-execute-ok", "edit-and-execute-fail", "edit-and-execute-missing":
		exit = steps("\x18\x05", "\r", "\x03")
	case "command-panics":
		exit = steps("\x18\x10")
	case "input-eof":
		exit = []sess.Step{{EOF: true}}
	case "input-eio":
		exit = []sess.Step{{EIO: true}}
	}
	res := s.Call(plan, exit)
	ctx := fmt.Sprintf("exit=%s where=%s(%s) termios=%s earlier-call=%q buffer=%q back=%d W=%d", c.Exit, c.Where, c.Pend, c.Termios, c.Prior, clampStr(c.Buf, 40), c.Back, c.W)
	o.O.Events++
	panicked := res.Panic != "" && strings.Contains(res.Panic, "verif: bound command panics")
	if !panicked && !stdFailures(&o, res, ctx) {
		o.O.Sample = map[string]any{"ctx": ctx}
		return o.O
	}
	if !res.Returned && !panicked {
		o.Add("call_did_not_return_on_this_exit_path", 1)
		o.O.Sample = map[string]any{"ctx": ctx, "returned": false}
		return o.O
	}
	how := "returned"
	if panicked {
		how = "panic-unwound"
	}
	shape := "empty"
	switch {
	case strings.HasSuffix(c.Buf, "\\"):
		shape = "multiline"
	case len(c.Buf)+2 == c.W:
		shape = "exact-full"
	case len(c.Buf)+2 > c.W:
		shape = "wrapped"
	case c.Back > 0:
		shape = "cursor-mid"
	case c.Buf != "":
		shape = "short"
	}
	prior := "first-call"
	if c.Prior != "" {
		prior = "after-an-earlier-call"
	}
	o.Cover(fmt.Sprintf("%s|%s|%s|%s|%s", c.Exit, c.Where, shape, c.Termios, prior))
	// (1) terminal modes
	if res.TioBefore != res.TioAfter {
		o.Viol("terminal-modes-not-restored|"+how, ctx+fmt.Sprintf(" before=%+v after=%+v", res.TioBefore, res.TioAfter))
	}
	// (2) cursor style reset to the user's default
	if res.EndStyle != "0" {
		o.Viol("cursor-style-not-reset|"+how, ctx+fmt.Sprintf(" last DECSCUSR parameter seen: %q", res.EndStyle))
	}
	// (3) cursor at the start of a fresh row below the input
	lastText := -1
	for m := 0; m < 2; m++ {
		for i, row := range res.EndGrid[m] {
			if vt.CellsText(row) != "" && i > lastText {
				lastText = i
			}
		}
	}
	cursorRowBlank := true
	if res.EndRow >= 0 && res.EndRow < len(res.EndGrid[0]) {
		cursorRowBlank = vt.CellsText(res.EndGrid[0][res.EndRow]) == ""
	}
	if res.EndCol != 0 || res.EndRow <= lastText || !cursorRowBlank {
		sig := "cursor-not-on-a-fresh-row-below-the-input|" + how
		o.Viol(sig, ctx+fmt.Sprintf(" cursor at row %d col %d (relative to the first prompt row), last row with text %d, cursor row blank=%v; screen=%q", res.EndRow, res.EndCol, lastText, cursorRowBlank, res.EndScreen[0]))
	}
	if env.Verbose {
		o.O.Trace = res
	}
	o.O.Sample = map[string]any{"ctx": ctx, "how": how, "end": fmt.Sprintf("(%d,%d)", res.EndRow, res.EndCol), "style": res.EndStyle, "line": clampStr(res.Line, 40), "err": res.Err}
	return o.O
}

func init() {
	fw.Register(&fw.Prop{
		ID:        "C11",
		Level:     "exploration",
		NeedsTerm: true,
		Rule: "left from 9 editor states (emacs, Vi insert / command / visual / replace, an operator d c y 2d g~ 3c pending, a count, a register, an Emacs digit argument pending); 15 exit paths (accept-line, accept-and-hold, multi-line accept, operate-and-get-next, C-c plain / in an open completion menu / in incremental search, C-d on an empty line, insert-comment, edit-and-execute-command with a succeeding / failing / missing editor, a user-registered command that panics, stdin EOF, stdin EIO) x {emacs, vi-insert, vi-command, visual} x 7 buffer shapes (empty, short, wrapped, exactly filling the row, two lines, cursor in the middle, menu/hint) x 6 initial termios variants (cooked, echo off, ixon off, odd VMIN/VTIME, an application's cbreak mode with ICANON and ECHO off, a raw-like mode), one case in three after an earlier call on the same Shell that returned normally (accept / C-c / C-d) on a cooked terminal; monitors after the call returned or the panic unwound: TCGETS struct equality with the value before the call, last DECSCUSR parameter == 0, emulator cursor in column 0 on a blank row below every row that holds text. " +
			"distinct non-trivial = distinct (exit path, mode, buffer shape, termios variant, first or later call) tuples; exit paths are enumerated round-robin so every tier covers all 15",
		Assumptions: []string{"prompt-transient off", "buffers are plain ASCII (wide characters at the margin and wrapped multi-line buffers are C04's known classes)"},
		N: func(tier string) int {
			if tier == "thorough" {
				return 40000
			}
			return 2400
		},
		Gen: c11Gen,
		Run: c11Run,
	})
}
