package props

import (
	"encoding/json"
	"fmt"
	"math/rand"
	"strings"

	"verif/fw"
	"verif/sess"
)

// C06: cursor and selection stay inside the buffer; movements never edit; the returned line is
// the buffer at acceptance.

type c06Case struct {
	shellCfg
	Kind string      `json:"kind"` // invariants | movement
	Plan []sess.Step `json:"plan"`
	// movement
	Cmd    string   `json:"cmd,omitempty"`
	Keymap string   `json:"keymap,omitempty"` // keymap in which the probe key is bound
	ArgKey string   `json:"argkey,omitempty"` // argument key the command reads ("" = none)
	NumArg string   `json:"numarg,omitempty"`
	Motion string   `json:"motion,omitempty"` // for vi-yank-to: the motion keys
	Comp   bool     `json:"comp"`
	Multi  bool     `json:"multi"`
	Bound  []string `json:"bound,omitempty"` // invariants: commands without a default binding, bound to C-x C-z a, b, ...
	// invariants: an earlier call on the same Shell (its waits are judged too), ended from whatever
	// mode its script left it in by RET or by accept-and-hold (bound to C-x C-z H for the case):
	// the mode and a held line carry over to the judged call
	Prior     []sess.Step `json:"prior,omitempty"`
	PriorHold bool        `json:"prior_hold,omitempty"`
}

// commands documented as pure movements or copies, by name
var c06Movements = []struct {
	name   string
	vi     bool   // invoked from vi-command (else emacs)
	arg    string // "" | "char" | "mark"
	visual bool   // invoked in visual mode
}{
	{"forward-char", false, "", false}, {"backward-char", false, "", false}, {"forward-word", false, "", false}, {"backward-word", false, "", false},
	{"shell-forward-word", false, "", false}, {"shell-backward-word", false, "", false}, {"beginning-of-line", false, "", false}, {"end-of-line", false, "", false},
	{"previous-screen-line", false, "", false}, {"next-screen-line", false, "", false}, {"set-mark", false, "", false}, {"exchange-point-and-mark", false, "", false},
	{"copy-region-as-kill", false, "", false}, {"copy-backward-word", false, "", false}, {"copy-forward-word", false, "", false},
	{"character-search", false, "char", false}, {"character-search-backward", false, "char", false},
	{"vi-backward-char", true, "", false}, {"vi-forward-char", true, "", false}, {"vi-prev-word", true, "", false}, {"vi-next-word", true, "", false},
	{"vi-backward-word", true, "", false}, {"vi-forward-word", true, "", false}, {"vi-backward-bigword", true, "", false}, {"vi-forward-bigword", true, "", false},
	{"vi-end-word", true, "", false}, {"vi-end-bigword", true, "", false}, {"vi-match", true, "", false}, {"vi-column", true, "", false},
	{"vi-end-of-line", true, "", false}, {"vi-back-to-indent", true, "", false}, {"vi-first-print", true, "", false}, {"vi-goto-mark", true, "", false},
	{"vi-backward-end-word", true, "", false}, {"vi-backward-end-bigword", true, "", false}, {"vi-set-mark", true, "", false},
	{"vi-find-next-char", true, "char", false}, {"vi-find-next-char-skip", true, "char", false}, {"vi-find-prev-char", true, "char", false}, {"vi-find-prev-char-skip", true, "char", false},
	{"vi-char-search", true, "char", false}, {"vi-yank-whole-line", true, "", false}, {"vi-yank-to", true, "motion", false},
	{"beginning-of-line", true, "", false}, {"end-of-line", true, "", false}, {"forward-word", true, "", false}, {"backward-word", true, "", false},
	{"select-a-blank-word", true, "", true}, {"select-a-shell-word", true, "", true}, {"select-a-word", true, "", true},
	{"select-in-blank-word", true, "", true}, {"select-in-shell-word", true, "", true}, {"select-in-word", true, "", true},
	{"vi-forward-char", true, "", true}, {"vi-next-word", true, "", true}, {"vi-end-word", true, "", true}, {"vi-match", true, "", true},
}

const c06Probe = "\x18\x14" // C-x C-t

func c06Gen(r *rand.Rand, tier string, idx int) any {
	c := c06Case{}
	c.W, c.H = 40+r.Intn(60), 12+r.Intn(20)
	c.Inputrc = "set history-autosuggest off\n"
	if r.Intn(2) == 0 {
		// general invariants over C01-style scripts
		c.Kind = "invariants"
		c.Mode = pick(r, []string{"emacs", "vi"})
		c.Inputrc += genInputrcVars(r)
		c.Inputrc += "set history-autosuggest off\n"
		c.Hist = genHist(r, 6)
		c.Comp = r.Intn(2) == 0
		c.Multi = r.Intn(3) == 0
		c.Plan = limitDigits(genScript(r, c.Mode == "vi", 3+r.Intn(30)), 4)
		if ub := unboundCommands(); len(ub) > 0 && r.Intn(3) == 0 {
			// commands no default keymap binds (a user configuration can): see C01
			for i, n := 0, 1+r.Intn(6); i < n; i++ {
				c.Bound = append(c.Bound, pick(r, ub))
			}
			for i, n := 0, 1+r.Intn(2*len(c.Bound)); i < n; i++ {
				st := sess.Step{W: c01Probe + string(rune('a'+r.Intn(len(c.Bound)))), Tag: "unbound-by-default"}
				at := r.Intn(len(c.Plan) + 1)
				c.Plan = append(c.Plan[:at], append([]sess.Step{st}, c.Plan[at:]...)...)
			}
		}
		if r.Intn(4) == 0 {
			c.Prior = limitDigits(genScript(r, c.Mode == "vi", 1+r.Intn(8)), 4)
			c.Prior = append(c.Prior, sess.Step{W: pick(r, []string{"held text", "ab", "x", "two words"}), Tag: "text"})
			if c.Mode == "vi" && r.Intn(2) == 0 {
				c.Prior = append(c.Prior, sess.Step{W: "\x1b", Tag: "esc"})
			}
			c.PriorHold = r.Intn(2) == 0
		}
		if c.Mode == "vi" && len(c.Hist) > 0 && r.Intn(3) == 0 {
			// history searches from command mode whose text is a whole entry (the cursor is put
			// at the length of the text: the end of the line), or an incremental search
			// cancelled by a key that is not a search command after a match was selected
			e := pick(r, c.Hist)
			if i := strings.IndexByte(e, '\n'); i >= 0 {
				e = e[:i]
			}
			var tok []sess.Step
			switch r.Intn(3) {
			case 0:
				tok = []sess.Step{{W: "\x1b", Tag: "esc"}, {W: "?", Tag: "search"}, {W: e, Tag: "pattern"}, {W: "\r", Tag: "search"}}
			case 1:
				tok = []sess.Step{{W: "\x1b", Tag: "esc"}, {W: "k", Tag: "hist"}, {W: "/", Tag: "search"}, {W: e, Tag: "pattern"}, {W: "\r", Tag: "search"}}
			default:
				sub := e
				if len(sub) > 3 {
					sub = sub[:3]
				}
				tok = []sess.Step{{W: "\x1b", Tag: "esc"}, {W: "\x12", Tag: "isearch"}, {W: sub, Tag: "pattern"}, {W: "\t", Tag: "select"}, {W: pick(r, []string{"\x0b", "\x01"}), Tag: "undefined-in-isearch"}}
			}
			at := r.Intn(len(c.Plan) + 1)
			c.Plan = append(c.Plan[:at], append(tok, c.Plan[at:]...)...)
		}
		return c
	}
	c.Kind = "movement"
	if r.Intn(8) == 0 {
		c06GenRegisterCopies(r, &c)
		return c
	}
	m := pick(r, c06Movements)
	c.Cmd = m.name
	c.Hist = []string{pick(r, stdHist), pick(r, stdHist), pick(r, stdHist)}
	add := func(w, tag string) { c.Plan = append(c.Plan, sess.Step{W: w, Tag: tag}) }
	if m.vi {
		c.Mode = "vi"
		c.Keymap = "vi-command"
		add("\x1b", "esc")
		for i := 0; i < 1+r.Intn(3); i++ {
			add("k", "recall")
		}
		// random cursor walk
		for i := 0; i < r.Intn(6); i++ {
			add(pick(r, []string{"h", "l", "0", "$", "w", "b", "j", "k", "e"}), "walk")
		}
		if m.visual {
			c.Keymap = "vi-visual"
			add(pick(r, []string{"v", "V"}), "visual")
			for i := 0; i < r.Intn(3); i++ {
				add(pick(r, []string{"h", "l", "w", "b"}), "walk")
			}
		}
		switch r.Intn(4) {
		case 0:
		case 1:
			c.NumArg = fmt.Sprint(1 + r.Intn(9))
		case 2:
			c.NumArg = fmt.Sprint(10 + r.Intn(90))
		default:
			c.NumArg = fmt.Sprint(2 + r.Intn(3))
		}
		if c.NumArg != "" {
			add(c.NumArg, "numarg")
		}
	} else {
		c.Mode = "emacs"
		c.Keymap = "emacs"
		for i := 0; i < 1+r.Intn(3); i++ {
			add("\x10", "recall")
		}
		for i := 0; i < r.Intn(6); i++ {
			add(pick(r, []string{"\x02", "\x06", "\x01", "\x05", "\x1bf", "\x1bb", "\x0e", "\x10"}), "walk")
		}
		switch r.Intn(5) {
		case 0:
		case 1:
			c.NumArg = "\x1b" + fmt.Sprint(1+r.Intn(9))
		case 2:
			c.NumArg = "\x1b" + fmt.Sprint(1+r.Intn(9)) + fmt.Sprint(r.Intn(10))
		case 3:
			c.NumArg = "\x1b-" + fmt.Sprint(1+r.Intn(9))
		default:
			c.NumArg = "\x1b-"
		}
		if c.NumArg != "" {
			add(c.NumArg, "numarg")
		}
	}
	if m.name == "vi-yank-to" {
		// the operator identifies itself by its own key: it is invoked through its default binding
		add("y", "probe")
	} else {
		add(c06Probe, "probe")
	}
	switch m.arg {
	case "char":
		c.ArgKey = string(pick(r, []rune("aeo gx-'(\"世")))
		add(c.ArgKey, "argkey")
	case "motion":
		c.Motion = pick(r, []string{"w", "b", "e", "$", "0", "l", "h", "iw", "aw", "fa", "tx", "%", "W", "B", "E", "^", "y"})
		for _, k := range c.Motion {
			add(string(k), "motion")
		}
	}
	return c
}

// c06GenRegisterCopies: several yanks in a row into named registers (lower case = replace,
// upper case = append), from a buffer that is multi-line half of the time.
func c06GenRegisterCopies(r *rand.Rand, c *c06Case) {
	c.Mode, c.Keymap, c.Cmd = "vi", "vi-command", "vi-yank-whole-line"
	c.Hist = []string{pick(r, stdHist), pick(r, stdHist), pick(r, []string{"ab\ncd", "first line\nsecond\nthird line here", "x\n\ny", "one two three", "世界\nwörld ok", "a\nbb\nccc\ndddd"})}
	add := func(w, tag string) { c.Plan = append(c.Plan, sess.Step{W: w, Tag: tag}) }
	add("\x1b", "esc")
	for i := 0; i < 1+r.Intn(2); i++ {
		add("k", "recall")
	}
	for i := 0; i < r.Intn(5); i++ {
		add(pick(r, []string{"h", "l", "0", "$", "w", "b", "k", "k", "e"}), "walk")
	}
	regs := pick(r, [][]string{{"a", "A"}, {"a", "A", "b", "B"}, {"z", "Z", "1", "a"}})
	n := 2 + r.Intn(3)
	for i := 0; i < n; i++ {
		tag := "copy"
		if i == 0 {
			tag = "probe"
		}
		add("\"", tag)
		add(pick(r, regs), "register")
		if r.Intn(3) == 0 {
			add(fmt.Sprint(2+r.Intn(3)), "numarg")
		}
		if r.Intn(2) == 0 {
			add(c06Probe, "copy")
		} else {
			add("y", "copy")
			for _, k := range pick(r, []string{"w", "b", "e", "$", "0", "l", "h", "iw", "aw", "W", "E", "^", "y"}) {
				add(string(k), "motion")
			}
		}
		if r.Intn(3) == 0 {
			add(pick(r, []string{"h", "l", "0", "$", "w", "b", "e"}), "walk") // no j/k: they leave the line for another history entry
		}
	}
	c.Motion = "register-copies"
}

func c06Invariants(o *fw.Out, sn *sess.Snap, ctx string) {
	n := len([]rune(sn.Line))
	if sn.Pos < 0 || sn.Pos > n {
		o.Viol("cursor-outside-buffer|"+sn.Kind, ctx+fmt.Sprintf(" wait=%d cmd=%s pos=%d len=%d buffer=%q", sn.Idx, sn.Cmd, sn.Pos, n, clampStr(sn.Line, 80)))
	}
	if sn.Kind != "main" {
		return
	}
	viCmd := sn.Main == "vi-command" || sn.Main == "vi-move" || sn.Main == "vi"
	if viCmd && sn.Local != "isearch" && sn.Local != "menu-select" && n > 0 && sn.Pos >= n {
		// on a character unless the buffer or the current line is empty
		rs := []rune(sn.Line)
		lineEmpty := (sn.Pos == n && rs[n-1] == '\n') || (sn.Pos < n && rs[sn.Pos] == '\n' && (sn.Pos == 0 || rs[sn.Pos-1] == '\n'))
		if !lineEmpty && !strings.Contains(sn.Hint, "/") && !strings.Contains(sn.Hint, "?") {
			o.Viol("vi-command-cursor-past-last-character", ctx+fmt.Sprintf(" wait=%d cmd=%s pos=%d len=%d buffer=%q", sn.Idx, sn.Cmd, sn.Pos, n, clampStr(sn.Line, 80)))
		}
	}
	if sn.SelAct && !(sn.SelB == -1 && sn.SelE == -1) {
		if sn.SelB < 0 || sn.SelB > sn.SelE || sn.SelE > n {
			o.Viol("selection-outside-buffer", ctx+fmt.Sprintf(" wait=%d cmd=%s selection=(%d,%d) len=%d buffer=%q", sn.Idx, sn.Cmd, sn.SelB, sn.SelE, n, clampStr(sn.Line, 80)))
		}
	}
}

func c06Run(env *fw.Env, raw json.RawMessage) fw.Outcome {
	var c c06Case
	unmarshal(raw, &c)
	var o fw.Out
	cfg := c.cfg()
	ran := 0
	cfg.Setup = func(s *sess.Session) {
		installEditorStubs(s.Dir, "missing")
		if c.Comp {
			s.Sh.Completer = c01Completer(len(c.Plan))
		}
		if c.Multi {
			s.Sh.AcceptMultiline = func(l []rune) bool { return len(l) == 0 || l[len(l)-1] != '\\' }
		}
		for i, name := range c.Bound {
			for _, km := range []string{"emacs", "vi-insert", "vi-command", "vi-visual"} {
				s.Sh.Config.Bind(km, c01Probe+string(rune('a'+i)), name, false)
			}
		}
		if c.PriorHold {
			for _, km := range []string{"emacs", "vi-insert", "vi-command"} {
				s.Sh.Config.Bind(km, c01Probe+"H", "accept-and-hold", false)
			}
		}
		if c.Kind == "movement" {
			inner := s.Sh.Keymap.Commands()[c.Cmd]
			s.Sh.Keymap.Register(map[string]func(){"verif-ran": func() {}})
			_ = inner
			s.Sh.Config.Bind(c.Keymap, c06Probe, c.Cmd, false)
		}
	}
	s := sess.New(env.T, env.Scratch, cfg)
	defer s.Close()
	ctx := fmt.Sprintf("kind=%s mode=%s cmd=%s numarg=%q argkey=%q motion=%q bound-for-the-case=%v", c.Kind, c.Mode, c.Cmd, c.NumArg, c.ArgKey, c.Motion, c.Bound)
	if len(c.Prior) > 0 {
		ex := retExit
		if c.PriorHold {
			ex = steps(c01Probe + "H")
		}
		pres := s.Call(c.Prior, ex)
		pctx := ctx + fmt.Sprintf(" (earlier call on the same shell, ended by accept-and-hold=%v) script=%s", c.PriorHold, qsteps(c.Prior))
		for i := range pres.Waits {
			o.O.Events++
			c06Invariants(&o, &pres.Waits[i], pctx)
		}
		if !stdFailures(&o, pres, pctx) || !pres.Returned {
			o.O.Sample = map[string]any{"ctx": pctx}
			return o.O
		}
		o.Add("judged_calls_after_an_earlier_call_on_the_same_shell", 1)
		ctx += fmt.Sprintf(" after-an-earlier-call(accept-and-hold=%v, returned %q)", c.PriorHold, clampStr(pres.Line, 40))
	}
	res := s.Call(c.Plan, retExit)
	for i := range res.Waits {
		o.O.Events++
		c06Invariants(&o, &res.Waits[i], ctx)
		if len(o.O.Findings) > 2 {
			break
		}
	}
	if !stdFailures(&o, res, ctx) {
		o.O.Sample = map[string]any{"ctx": ctx, "plan": qsteps(c.Plan)}
		return o.O
	}
	// acceptance: plain accept-line at a main wait without local keymap / minibuffer
	if res.Returned && res.Err == "" && res.PlanDone {
		// the wait at which the exit RET was delivered
		for i := len(res.Waits) - 1; i >= 0; i-- {
			w := res.Waits[i]
			if w.Step == len(c.Plan) {
				plain := w.Kind == "main" && w.Local == "" && !strings.Contains(w.Hint, "/") && !strings.Contains(w.Hint, "?") && !strings.Contains(w.Hint, "search")
				continues := c.Multi && strings.HasSuffix(w.Line, "\\")
				// the case's own bindings make C-x a prefix in every main keymap: a script ending
				// with it leaves a sequence pending, which the accepting RET completes or breaks
				if len(c.Bound) > 0 && len(c.Plan) > 0 && strings.HasSuffix(c.Plan[len(c.Plan)-1].W, "\x18") {
					plain = false
				}
				if plain && !continues && i == len(res.Waits)-1 {
					o.O.Events++
					o.Add("acceptances_judged", 1)
					if res.Line != w.Line {
						o.Viol("returned-line-differs-from-buffer-at-acceptance|"+w.Main, ctx+fmt.Sprintf(" buffer at the wait before RET=%q returned=%q last cmd=%s", clampStr(w.Line, 100), clampStr(res.Line, 100), w.Cmd))
					}
				}
				break
			}
		}
	}
	if c.Kind == "movement" {
		// buffer before the probe key vs after the command (and its argument / motion) completed
		probeStep := -1
		for i, st := range c.Plan {
			if st.Tag == "probe" && probeStep < 0 {
				probeStep = i
			}
		}
		var before, after *sess.Snap
		for i := range res.Waits {
			w := &res.Waits[i]
			if w.Step == probeStep && before == nil {
				before = w
			}
			if w.Step == len(c.Plan) && after == nil {
				after = w
			}
		}
		if before != nil && after != nil {
			ran++
			o.O.Events++
			bufClass := contentClass(before.Line)
			if strings.Contains(before.Line, "\n") {
				bufClass += "+multiline"
			}
			argClass := "noarg"
			switch {
			case strings.Contains(c.NumArg, "-"):
				argClass = "negative"
			case c.NumArg != "":
				argClass = "count"
			}
			curClass := "mid"
			switch {
			case before.Pos == 0:
				curClass = "start"
			case before.Pos >= len([]rune(before.Line))-1:
				curClass = "end"
			}
			o.Cover(fmt.Sprintf("%s|%s|%s|%s|%s", c.Cmd, c.Keymap, argClass, bufClass, curClass))
			o.Set("movement_commands_run", c.Cmd+"@"+c.Keymap)
			if before.Line != after.Line {
				o.Viol("movement-changed-the-buffer|"+c.Cmd, ctx+fmt.Sprintf(" before=%q pos=%d after=%q pos=%d", clampStr(before.Line, 100), before.Pos, clampStr(after.Line, 100), after.Pos))
			}
		} else {
			o.Add("movement_cases_without_before_after", 1)
		}
	} else {
		for _, w := range res.Waits {
			o.Cover(fmt.Sprintf("inv|%s|%s/%s", w.Cmd, w.Main, w.Local))
		}
	}
	if env.Verbose {
		o.O.Trace = res
	}
	o.O.Sample = map[string]any{"ctx": ctx, "plan": qsteps(c.Plan), "returned": res.Returned, "line": clampStr(res.Line, 60)}
	return o.O
}

func init() {
	fw.Register(&fw.Prop{
		ID:        "C06",
		Level:     "exploration",
		NeedsTerm: true,
		Rule: "two case kinds. invariants: C01-style random scripts in both modes; at every input wait 0 <= pos <= len, at main waits in Vi command mode pos < len unless the buffer or the cursor's line is empty, an active selection lies in [0,len]; when the call ends with a plain accept-line the returned line equals the buffer observed at the wait before RET. One invariants case in four runs after an earlier call on the same Shell, judged too, ended by RET or accept-and-hold from whatever mode its script left it in. movement: one of 58 (command, keymap) pairs documented as pure movement/copy is bound by name to a probe key and invoked with a numeric argument (none, 1-99, negative) from a history-recalled buffer (ASCII, multi-byte, multi-line) after a random cursor walk (visual mode for select-* commands, y+motion for vi-yank-to); buffer text before == after. " +
			"distinct non-trivial = distinct (command, keymap, argument class, buffer class, cursor class) tuples for movement cases and (command, keymaps) for invariant cases",
		Assumptions: []string{"history-autosuggest off (accepting a suggestion with forward-char is a documented edit)", "numeric arguments <= 99 for movement probes"},
		N: func(tier string) int {
			if tier == "thorough" {
				return 120000
			}
			return 4000
		},
		Gen: c06Gen,
		Run: c06Run,
	})
}
