package props

import (
	"fmt"
	"math/rand"
	"sort"
	"strings"
)

// Generator of well-formed inputrc programs as an AST, their text, and a reference evaluator
// working on the AST (never on the text). Shared by C12 (as a seed corpus), C13 and C19.

type rcNode struct {
	Kind string `json:"k"` // if | keymap | set | bind | comment | blank | include
	// if
	CondKind string   `json:"ck,omitempty"` // mode | term | app
	CondVal  string   `json:"cv,omitempty"`
	Then     []rcNode `json:"then,omitempty"`
	Else     []rcNode `json:"else,omitempty"`
	HasElse  bool     `json:"haselse,omitempty"`
	// keymap / set
	Name  string `json:"name,omitempty"`
	Value string `json:"value,omitempty"`
	// bind
	KeyText string `json:"keytext,omitempty"` // notation as written (left of the colon)
	Seq     []int  `json:"seq,omitempty"`     // decoded sequence (runes); Meta-x is 0x80|x
	Action  string `json:"action,omitempty"`  // function name, or macro text as written (with quotes)
	Macro   bool   `json:"macro,omitempty"`
	MacroV  []int  `json:"macrov,omitempty"` // decoded macro body
	Trail   string `json:"trail,omitempty"`  // trailing text after the directive (comment)
	// include
	File string   `json:"file,omitempty"`
	Body []rcNode `json:"body,omitempty"`
}

type rcEnv struct{ Mode, Term, App string }

var rcModes = []string{"emacs", "vi"}
var rcTerms = []string{"xterm", "vt100", "rxvt", "linux"}
var rcApps = []string{"bash", "go", "myapp", "Gdb"}
var rcKeymaps = []string{"emacs", "emacs-standard", "emacs-meta", "emacs-ctlx", "vi", "vi-move", "vi-command", "vi-insert"}
var rcFuncs = []string{"forward-char", "backward-kill-word", "self-insert", "my-custom-function", "abort", "yank", "x-f", "complete"}
var rcVarNames = []string{"history-size", "completion-ignore-case", "bell-style", "my-var", "comment-begin", "keyseq-timeout", "colored-stats", "other_var", "v"}
var rcVarValues = []string{"on", "off", "On", "OFF", "5", "0", "10", "123", "1000", "foo", "x", "audible", "vi-ish", "a1", "7"}

var rcVarKinds = map[string][]string{
	"history-size": {"5", "0", "10", "123", "1000", "7"}, "keyseq-timeout": {"500", "1", "20"}, "other_var": {"3", "42"},
	"completion-ignore-case": {"on", "off", "On", "OFF"}, "colored-stats": {"on", "off"}, "v": {"on", "Off"},
	"bell-style": {"audible", "none", "visible"}, "my-var": {"foo", "x", "vi-ish", "a1", "emacs-meta"}, "comment-begin": {"//", ";", "--"},
}

type rcGenState struct {
	r     *rand.Rand
	used  map[string]bool // normalised sequences already bound (program-wide)
	files map[string][]rcNode
	nfile int
	// a `set keymap` has been generated earlier in program order (in any branch)
	keymapSeen bool
}

// one key of a sequence, with its notation
func (g *rcGenState) genKeyNotation(inMacro bool) (runes []int, text string) {
	r := g.r
	letter := func() rune { return rune('a' + r.Intn(26)) }
	switch r.Intn(14) {
	case 0, 1, 2:
		c := pick(r, []rune("abcxyzABC019;,.[]{}()<>/=+-_*&^%$@!~ "))
		return []int{int(c)}, string(c)
	case 3, 4:
		c := letter()
		return []int{int(c) & 0x1f}, `\C-` + string(c)
	case 5:
		return []int{0x1b}, `\e`
	case 6:
		c := letter()
		return []int{0x80 | int(c)}, `\M-` + string(c)
	case 7:
		e := pick(r, []string{`\a`, `\b`, `\d`, `\f`, `\n`, `\r`, `\t`, `\v`})
		v := map[string]int{`\a`: 7, `\b`: 8, `\d`: 127, `\f`: 12, `\n`: 10, `\r`: 13, `\t`: 9, `\v`: 11}[e]
		return []int{v}, e
	case 8:
		e := pick(r, []string{`\\`, `\"`, `\'`})
		return []int{int(e[1])}, e
	case 9:
		v := 1 + r.Intn(0x7e)
		return []int{v}, fmt.Sprintf(`\%03o`, v)
	case 10:
		v := 1 + r.Intn(0x7e)
		return []int{v}, fmt.Sprintf(`\x%02x`, v)
	case 11:
		return []int{127}, `\C-?`
	case 12:
		c := letter()
		return []int{0x1b, int(c) & 0x1f}, `\e\C-` + string(c)
	default:
		c := pick(r, []rune("@[]^_"))
		return []int{int(c) & 0x1f}, `\C-` + string(c)
	}
}

func normSeq(seq []int) string {
	var sb strings.Builder
	for _, v := range seq {
		if v >= 0x80 && v <= 0xff {
			sb.WriteRune(0x1b)
			sb.WriteRune(rune(v & 0x7f))
		} else {
			sb.WriteRune(rune(v))
		}
	}
	return sb.String()
}

var rcKeyNames = []struct {
	text string
	seq  []int
}{
	{"Control-a", []int{1}}, {"Control-x", []int{0x18}}, {"C-k", []int{0x0b}}, {"control-u", []int{0x15}}, {"CTRL-e", []int{5}},
	{"Meta-f", []int{0x80 | 'f'}}, {"M-b", []int{0x80 | 'b'}}, {"meta-d", []int{0x80 | 'd'}},
	{"Rubout", []int{127}}, {"DEL", []int{127}}, {"ESC", []int{27}}, {"Escape", []int{27}}, {"RET", []int{13}}, {"Return", []int{13}},
	{"Newline", []int{10}}, {"LFD", []int{10}}, {"SPC", []int{32}}, {"Space", []int{32}}, {"TAB", []int{9}}, {"Tab", []int{9}},
	{"Meta-Rubout", []int{0x80 | 127}}, {"Control-Meta-g", []int{27, 7}}, {"Meta-Control-h", []int{27, 8}},
	{"z", []int{'z'}},
}

func (g *rcGenState) genBind() rcNode {
	r := g.r
	n := rcNode{Kind: "bind"}
	for tries := 0; tries < 50; tries++ {
		if r.Intn(4) == 0 {
			k := pick(r, rcKeyNames)
			n.KeyText, n.Seq = k.text, k.seq
		} else {
			var seq []int
			var sb strings.Builder
			l := 1 + r.Intn(4)
			for i := 0; i < l; i++ {
				rs, t := g.genKeyNotation(false)
				seq = append(seq, rs...)
				sb.WriteString(t)
			}
			q := `"`
			if r.Intn(6) == 0 && !strings.ContainsAny(sb.String(), `'`) {
				q = `'`
			}
			n.KeyText, n.Seq = q+sb.String()+q, seq
			if q == `'` && strings.Contains(sb.String(), `"`) || q == `"` && strings.Contains(strings.ReplaceAll(sb.String(), `\"`, ""), `"`) {
				continue
			}
		}
		if len(n.KeyText) == 3 && n.KeyText[0] == '"' {
			// a one-character quoted sequence is fine
		}
		if !g.used[normSeq(n.Seq)] {
			g.used[normSeq(n.Seq)] = true
			break
		}
		n.KeyText = ""
	}
	if n.KeyText == "" {
		n.KeyText, n.Seq = `"\C-x\C-z"`, []int{0x18, 0x1a}
	}
	if r.Intn(4) == 0 {
		n.Macro = true
		var sb strings.Builder
		l := r.Intn(7) // (an empty body makes the key a no-op)
		for i := 0; i < l; i++ {
			rs, t := g.genKeyNotation(true)
			n.MacroV = append(n.MacroV, rs...)
			sb.WriteString(t)
		}
		n.Action = `"` + sb.String() + `"`
		if strings.Contains(strings.ReplaceAll(sb.String(), `\"`, ""), `"`) {
			n.Action, n.MacroV = `"hello world"`, toInts("hello world")
		}
	} else {
		n.Action = pick(r, rcFuncs)
	}
	if r.Intn(8) == 0 {
		n.Trail = " # trailing comment"
	}
	return n
}

func toInts(s string) []int {
	var out []int
	for _, r := range s {
		out = append(out, int(r))
	}
	return out
}

func (g *rcGenState) genNodes(depth, n int, allowKeymap bool) []rcNode {
	r := g.r
	var out []rcNode
	for i := 0; i < n; i++ {
		switch k := r.Intn(20); {
		case k < 7:
			out = append(out, g.genBind())
		case k < 11:
			// every variable keeps one kind of value (an assignment of another type to an
			// existing variable is legitimately refused by the library)
			name := pick(r, rcVarNames)
			out = append(out, rcNode{Kind: "set", Name: name, Value: pick(r, rcVarKinds[name])})
		case k < 13 && allowKeymap:
			g.keymapSeen = true
			out = append(out, rcNode{Kind: "keymap", Name: "keymap", Value: pick(r, rcKeymaps)})
		case k < 17 && depth < 5:
			nd := rcNode{Kind: "if"}
			switch r.Intn(3) {
			case 0:
				nd.CondKind, nd.CondVal = "mode", pick(r, rcModes)
			case 1:
				nd.CondKind, nd.CondVal = "term", pick(r, rcTerms)
			default:
				nd.CondKind, nd.CondVal = "app", pick(r, append([]string{"BASH", "Go", "gdb"}, rcApps...))
			}
			nd.Then = g.genNodes(depth+1, r.Intn(4), allowKeymap)
			if r.Intn(2) == 0 {
				nd.HasElse = true
				nd.Else = g.genNodes(depth+1, r.Intn(4), allowKeymap)
			}
			out = append(out, nd)
		case k < 18:
			out = append(out, rcNode{Kind: "comment", Value: pick(r, []string{"# a comment", "#set foo bar", "   # indented", `# "\C-x": nothing`})})
		case k < 19:
			out = append(out, rcNode{Kind: "blank", Value: pick(r, []string{"", "   ", "\t"})})
		default:
			// $include only while the keymap is certainly the default one (see DESIGN C13)
			// (also inside $if blocks, with more directives after it in the same block)
			if !allowKeymap || g.keymapSeen || g.nfile >= 3 {
				out = append(out, g.genBind())
				continue
			}
			g.nfile++
			f := fmt.Sprintf("/virtual/inc%d.inputrc", g.nfile)
			body := g.genNodes(1, 1+r.Intn(4), false)
			g.files[f] = body
			out = append(out, rcNode{Kind: "include", File: f, Body: body})
		}
	}
	return out
}

// genProgram builds a program; includes appear only before the first `set keymap`.
func genProgram(r *rand.Rand) ([]rcNode, map[string][]rcNode) {
	g := &rcGenState{r: r, used: map[string]bool{}, files: map[string][]rcNode{}}
	var prog []rcNode
	// a prefix without `set keymap` (may include files), then a general part
	prog = append(prog, g.genNodesTop(true)...)
	prog = append(prog, g.genNodes(0, 2+r.Intn(10), true)...)
	// no include after a keymap change: enforce by construction
	seenKeymap := false
	var fixed []rcNode
	for _, n := range prog {
		if containsKeymap(n) {
			seenKeymap = true
		}
		if n.Kind == "include" && seenKeymap {
			continue
		}
		fixed = append(fixed, n)
	}
	return fixed, g.files
}

func (g *rcGenState) genNodesTop(_ bool) []rcNode {
	var out []rcNode
	n := g.r.Intn(4)
	for i := 0; i < n; i++ {
		nodes := g.genNodes(0, 1, true)
		for _, nd := range nodes {
			if !containsKeymap(nd) {
				out = append(out, nd)
			}
		}
	}
	return out
}

func containsKeymap(n rcNode) bool {
	if n.Kind == "keymap" {
		return true
	}
	for _, c := range n.Then {
		if containsKeymap(c) {
			return true
		}
	}
	for _, c := range n.Else {
		if containsKeymap(c) {
			return true
		}
	}
	return false
}

func renderNodes(nodes []rcNode, indent string, r *rand.Rand) string {
	var sb strings.Builder
	for _, n := range nodes {
		switch n.Kind {
		case "bind":
			sep := ": "
			if r != nil && r.Intn(5) == 0 {
				sep = ":"
			}
			sb.WriteString(indent + n.KeyText + sep + n.Action + n.Trail + "\n")
		case "set":
			sb.WriteString(indent + "set " + n.Name + " " + n.Value + "\n")
		case "keymap":
			sb.WriteString(indent + "set keymap " + n.Value + "\n")
		case "comment", "blank":
			sb.WriteString(n.Value + "\n")
		case "include":
			sb.WriteString(indent + "$include " + n.File + "\n")
		case "if":
			cond := n.CondVal
			if n.CondKind != "app" {
				cond = n.CondKind + "=" + n.CondVal
			}
			sb.WriteString(indent + "$if " + cond + "\n")
			sb.WriteString(renderNodes(n.Then, indent+"  ", r))
			if n.HasElse {
				sb.WriteString(indent + "$else\n")
				sb.WriteString(renderNodes(n.Else, indent+"  ", r))
			}
			sb.WriteString(indent + "$endif\n")
		}
	}
	return sb.String()
}

type rcBind struct {
	Action string
	Macro  bool
}

type rcResult struct {
	Binds map[string]map[string]rcBind // keymap -> normalised sequence -> bind
	Vars  map[string]string            // name -> normalised value
}

func normVarValue(v string) string {
	switch strings.ToLower(v) {
	case "on":
		return "on"
	case "off":
		return "off"
	}
	return v
}

// evalProgram is the reference evaluator: a directive is live iff every enclosing arm is live.
func evalProgram(nodes []rcNode, env rcEnv) rcResult { return evalProgramX(nodes, env, false) }

// evalProgramX with innerIgnoresOuter reproduces the one known deviation of the pinned parser
// (an inner $if/$else is evaluated without regard to an inactive enclosing block); it is used
// only to recognise that known finding precisely, never as the expected result.
func evalProgramX(nodes []rcNode, env rcEnv, innerIgnoresOuter bool) rcResult {
	res := rcResult{Binds: map[string]map[string]rcBind{}, Vars: map[string]string{}}
	keymap := "emacs"
	var walk func(ns []rcNode, km *string)
	var dead func(ns []rcNode, km *string)
	// dead walks an inactive arm: nothing applies, except (deviation) inner blocks
	dead = func(ns []rcNode, km *string) {
		if !innerIgnoresOuter {
			return
		}
		for _, n := range ns {
			if n.Kind == "if" {
				walk([]rcNode{n}, km)
			}
		}
	}
	walk = func(ns []rcNode, km *string) {
		for _, n := range ns {
			switch n.Kind {
			case "bind":
				if res.Binds[*km] == nil {
					res.Binds[*km] = map[string]rcBind{}
				}
				act := n.Action
				if n.Macro {
					act = normSeq(n.MacroV)
				}
				res.Binds[*km][normSeq(n.Seq)] = rcBind{Action: act, Macro: n.Macro}
			case "set":
				res.Vars[n.Name] = normVarValue(n.Value)
			case "keymap":
				*km = n.Value
			case "include":
				k2 := "emacs"
				walk(n.Body, &k2)
			case "if":
				var live bool
				switch n.CondKind {
				case "mode":
					live = n.CondVal == env.Mode
				case "term":
					live = n.CondVal == env.Term
				default:
					live = strings.EqualFold(n.CondVal, env.App)
				}
				if live {
					walk(n.Then, km)
					if n.HasElse {
						dead(n.Else, km)
					}
				} else {
					dead(n.Then, km)
					if n.HasElse {
						walk(n.Else, km)
					}
				}
			}
		}
	}
	walk(nodes, &keymap)
	return res
}

func renderResult(r rcResult) []string {
	var out []string
	for km, m := range r.Binds {
		for seq, b := range m {
			out = append(out, fmt.Sprintf("bind %s %q -> %q macro=%v", km, seq, b.Action, b.Macro))
		}
	}
	for k, v := range r.Vars {
		out = append(out, fmt.Sprintf("var %s = %q", k, v))
	}
	sort.Strings(out)
	return out
}
