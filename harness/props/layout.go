package props

import (
	"fmt"
	"strings"
	"unicode"

	"verif/vt"
)

// Independent layout oracle for C04 (also used by C11 and C20): given the visible prompt, the
// buffer, the cursor position and the terminal width it computes which cells must hold which
// characters, using the harness' own wcwidth and the VT100 deferred-wrap rule, and compares
// that with the emulator grid.

type frameVerdict struct {
	OK       bool
	Why      string // class of the mismatch (line-number free)
	Detail   string
	RowsUsed int // rows of the input area (from the first prompt row)
	CurRow   int
	CurCol   int
	TabW     int
	Starts   []int // start column found for every logical line
	CurFree  bool  // the cursor is on an empty continuation line: its column is not determined
	Anchor   int   // rows between the start of the call and the first prompt row
}

type placed struct {
	row, col int
	r        []rune
	w        int
}

// placeLine lays out one logical line starting at (row, col).
// It returns the placed cells, the cell of every rune index (for the cursor), and the end cell.
func placeLine(line []rune, row, col, W, tabW int) (cells []placed, at [][2]int, endRow, endCol int) {
	at = make([][2]int, len(line)+1)
	put := func(r rune, w int) {
		if col >= W { // deferred wrap
			row++
			col = 0
		}
		if w == 2 && col == W-1 {
			row++
			col = 0
		}
		cells = append(cells, placed{row, col, []rune{r}, w})
		col += w
	}
	for i, r := range line {
		w := vt.RuneWidth(r)
		switch {
		case r == '\t':
			// the cell of a tab is where its first blank goes
			c0 := col
			r0 := row
			if c0 >= W {
				r0++
				c0 = 0
			}
			at[i] = [2]int{r0, c0}
			for k := 0; k < tabW; k++ {
				put(' ', 1)
			}
			continue
		case w == 0:
			// combining: joins the previous cell
			if n := len(cells); n > 0 {
				cells[n-1].r = append(append([]rune(nil), cells[n-1].r...), r)
				at[i] = [2]int{cells[n-1].row, cells[n-1].col}
			} else {
				at[i] = [2]int{row, col}
			}
			continue
		}
		put(r, w)
		last := cells[len(cells)-1]
		at[i] = [2]int{last.row, last.col}
	}
	// the position after the last character
	er, ec := row, col
	if ec >= W {
		er++
		ec = 0
	}
	at[len(line)] = [2]int{er, ec}
	return cells, at, row, col
}

func cellAt(grid [][]vt.Cell, row, col int) vt.Cell {
	if row < 0 || row >= len(grid) || col < 0 || col >= len(grid[row]) {
		return vt.Cell{}
	}
	return grid[row][col]
}

func blankCell(c vt.Cell) bool { return c.R == nil && !c.Cont }

func isSpaceCell(c vt.Cell) bool {
	return blankCell(c) || (len(c.R) == 1 && c.R[0] == ' ')
}

// matchCells checks that the placed cells are on the grid and that every other cell of the rows
// they span is blank, except (on the first row) the cells left of startCol when freeLeft is set.
func matchCells(grid [][]vt.Cell, W int, cells []placed, startRow, startCol, endRow int, freeLeft bool) (bool, string) {
	want := map[[2]int]placed{}
	cont := map[[2]int]bool{}
	for _, p := range cells {
		want[[2]int{p.row, p.col}] = p
		if p.w == 2 {
			cont[[2]int{p.row, p.col + 1}] = true
		}
	}
	for r := startRow; r <= endRow; r++ {
		for c := 0; c < W; c++ {
			if r == startRow && c < startCol {
				if freeLeft {
					// left of a continuation line: blank, or the library's decoration (secondary
					// prompt, multi-line column); anything else is a remnant of earlier content
					// (which glyphs the library decorates with is its choice: symbols and punctuation
					// are accepted, letters, digits and wide characters - what buffers are made of
					// in this workload - are remnants)
					if g := cellAt(grid, r, c); !blankCell(g) && !isSpaceCell(g) {
						for _, x := range g.R {
							if unicode.IsLetter(x) || unicode.IsDigit(x) || vt.RuneWidth(x) == 2 {
								return false, fmt.Sprintf("cell (%d,%d), left of a continuation line, holds %q: buffer text left from an earlier frame", r, c, string(g.R))
							}
						}
					}
					continue
				}
				continue // prompt cells are checked by the caller
			}
			g := cellAt(grid, r, c)
			k := [2]int{r, c}
			switch {
			case cont[k]:
				if !g.Cont {
					return false, fmt.Sprintf("cell (%d,%d) should be the right half of a wide character, has %q", r, c, string(g.R))
				}
			default:
				p, ok := want[k]
				if !ok {
					if !blankCell(g) {
						return false, fmt.Sprintf("cell (%d,%d) should be blank, has %q", r, c, string(g.R))
					}
					continue
				}
				if len(p.r) == 1 && p.r[0] == ' ' {
					if !isSpaceCell(g) {
						return false, fmt.Sprintf("cell (%d,%d) should be a space, has %q", r, c, string(g.R))
					}
					continue
				}
				if string(g.R) != string(p.r) {
					return false, fmt.Sprintf("cell (%d,%d) should be %q, has %q", r, c, string(p.r), string(g.R))
				}
			}
		}
	}
	return true, ""
}

// judgeFrame compares one emulator grid with the expected layout.
// promptLines are the visible lines of the prompt (the last one shares its row with the buffer).
func judgeFrame(grid [][]vt.Cell, W int, promptLines []string, buf []rune, pos int) frameVerdict {
	v := frameVerdict{}
	hasTab := false
	for _, r := range buf {
		if r == '\t' {
			hasTab = true
		}
	}
	tabs := []int{5}
	if hasTab {
		tabs = []int{5, 1, 2, 3, 4, 6, 7, 8}
	}
	var last frameVerdict
	for _, t := range tabs {
		last = judgeFrameTab(grid, W, promptLines, buf, pos, t)
		if last.OK {
			return last
		}
	}
	if hasTab {
		last = judgeFrameTab(grid, W, promptLines, buf, pos, 5)
	}
	_ = v
	return last
}

func judgeFrameTab(grid [][]vt.Cell, W int, promptLines []string, buf []rune, pos, tabW int) frameVerdict {
	v := frameVerdict{TabW: tabW}
	// (a) prompt
	row := 0
	for i, pl := range promptLines {
		cells, _, er, ec := placeLine([]rune(pl), row, 0, W, tabW)
		if i < len(promptLines)-1 {
			if ok, why := matchCells(grid, W, cells, row, 0, er, false); !ok {
				v.Why, v.Detail = "prompt-row-wrong", why
				return v
			}
			row = er + 1
			continue
		}
		// last prompt line: only its own cells are checked here
		for _, p := range cells {
			g := cellAt(grid, p.row, p.col)
			// a buffer that starts with a zero-width character legitimately decorates the
			// last prompt cell: only the base character is compared
			if len(g.R) > len(p.r) {
				g.R = g.R[:len(p.r)]
			}
			if len(p.r) == 1 && p.r[0] == ' ' {
				if !isSpaceCell(g) {
					v.Why, v.Detail = "prompt-wrong", fmt.Sprintf("prompt cell (%d,%d) should be a space, has %q", p.row, p.col, string(g.R))
					return v
				}
				continue
			}
			if string(g.R) != string(p.r) {
				v.Why, v.Detail = "prompt-wrong", fmt.Sprintf("prompt cell (%d,%d) should be %q, has %q", p.row, p.col, string(p.r), string(g.R))
				return v
			}
		}
		row = er
		if ec >= W {
			row, ec = er+1, 0
		}
		// logical lines
		lines := splitLines(buf)
		startRow, startCol := row, ec
		off := 0
		curSet := false
		for k, ln := range lines {
			var found bool
			var lastWhy string
			cands := []int{startCol}
			if k > 0 {
				// the start column of a continuation line is not fixed by the statement
				cands = cands[:0]
				for s := 0; s < W; s++ {
					cands = append(cands, s)
				}
			}
			for _, s := range cands {
				cells, at, er, ec2 := placeLine(ln, startRow, s, W, tabW)
				endRow := er
				checkTo := er
				if ec2 >= W {
					// an exactly full last row: the next row belongs to the frame too (cursor row).
					// In a single-line buffer it must be blank; in a multi-line buffer it may
					// carry the secondary-prompt decoration (it holds no buffer text).
					if k == len(lines)-1 {
						endRow = er + 1
						if len(lines) == 1 {
							checkTo = er + 1
						}
					}
				}
				ok, why := matchCells(grid, W, cells, startRow, s, checkTo, k > 0)
				if k == 0 {
					// cells of row 0 left of the prompt end were checked above
				}
				if !ok {
					lastWhy = why
					continue
				}
				found = true
				v.Starts = append(v.Starts, s)
				if !curSet && pos >= off && pos <= off+len(ln) {
					c := at[pos-off]
					v.CurRow, v.CurCol = c[0], c[1]
					v.CurFree = k > 0 && len(ln) == 0
					curSet = true
				}
				startRow = endRow + 1
				if ec2 >= W && k == len(lines)-1 {
					startRow = endRow + 1
				}
				v.RowsUsed = endRow + 1
				break
			}
			if !found {
				switch {
				case k == 0 && len(lines) == 1:
					v.Why = "single-line-buffer-wrong"
				case k == 0:
					v.Why = "first-line-of-multiline-buffer-wrong"
				default:
					v.Why = "continuation-line-wrong"
				}
				v.Detail = fmt.Sprintf("logical line %d: %s", k, lastWhy)
				return v
			}
			off += len(ln) + 1
		}
	}
	v.OK = true
	return v
}

func splitLines(buf []rune) [][]rune {
	var out [][]rune
	cur := []rune{}
	for _, r := range buf {
		if r == '\n' {
			out = append(out, cur)
			cur = []rune{}
			continue
		}
		cur = append(cur, r)
	}
	return append(out, cur)
}

func gridText(grid [][]vt.Cell, maxRows int) []string {
	var out []string
	for i, r := range grid {
		if i >= maxRows {
			break
		}
		out = append(out, vt.CellsText(r))
	}
	for len(out) > 0 && out[len(out)-1] == "" {
		out = out[:len(out)-1]
	}
	return out
}

func visibleLines(prompt string) []string {
	// strip SGR sequences
	var sb strings.Builder
	for i := 0; i < len(prompt); i++ {
		if prompt[i] == 0x1b && i+1 < len(prompt) && prompt[i+1] == '[' {
			j := i + 2
			for j < len(prompt) && !(prompt[j] >= 0x40 && prompt[j] <= 0x7e) {
				j++
			}
			i = j
			continue
		}
		sb.WriteByte(prompt[i])
	}
	return strings.Split(sb.String(), "\n")
}

type vtCell = vt.Cell

func cellsText(row []vt.Cell) string {
	var sb strings.Builder
	for _, c := range row {
		switch {
		case c.Cont:
		case c.R == nil:
			sb.WriteByte(' ')
		default:
			sb.WriteString(string(c.R))
		}
	}
	return sb.String()
}
