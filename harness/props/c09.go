package props

import (
	"encoding/json"
	"fmt"
	"math/rand"
	"regexp"
	"strings"

	"verif/fw"
	"verif/sess"
)

// C09: history navigation and search are faithful and non-destructive.

type c09Case struct {
	shellCfg
	Kind string `json:"kind"` // nav | prefix | substring | isearch
	T    string `json:"t"`    // in-progress text
	Back int    `json:"back"` // cursor moved back by this many characters before searching
	// editing commands run on the typed text before the first history command (undo, deletions,
	// kills, more text): the in-progress text is then what the buffer holds at that moment
	Edit    []string `json:"edit,omitempty"`
	Ops     []string `json:"ops"`
	Pattern string   `json:"pattern,omitempty"`
	Leave   string   `json:"leave,omitempty"` // esc | ret | abort
	Dels    int      `json:"dels,omitempty"`  // isearch: characters deleted from the search text after it was typed
	// nav-calls: several Readline calls on the same Shell; each types T, walks, and accepts what
	// the buffer then holds
	Calls []c09Call `json:"calls,omitempty"`
}

type c09Call struct {
	T   string   `json:"t"`
	Ops []string `json:"ops"`
}

var c09Hists = [][]string{
	{},
	{"only entry"},
	{"same", "same", "same"},
	{"echo one", "ls -la", "git status", "git commit -m x", "echo two"},
	{"git", "git commit", "git commit -m", "gi"},
	{"a\nb\nc", "single", "x\ny"},
	{"Echo Upper", "echo lower", "ECHO ALL", "print"},
	{"foo(bar)", "foo[1]", "a.b", "a+b", "((", "axb", "aab", "ab"},
	{"wörld", "世界 hello", "hello world"},
	{"aéy one", "aèz two", "世界 hello", "世間 world", "aé", "éa"},
}

var c09Edits = map[string]string{"undo": "\x1f", "bs": "\x7f", "killw": "\x17", "killl": "\x15", "more": "xy", "bword-killword": "\x1bb\x1bd", "bol-killword": "\x01\x1bd", "yank": "\x19"}
var c09EditNames = []string{"undo", "undo", "bs", "killw", "killl", "more", "bword-killword", "bol-killword", "yank"}

var c09Keys = map[string]string{
	"prev": "\x18\x10", "next": "\x18\x0e", "first": "\x18<", "last": "\x18>", "up": "\x10", "down": "\x0e",
	"psearch-back": "\x18p", "psearch-fwd": "\x18n", "ssearch-back": "\x18P", "ssearch-fwd": "\x18N",
}

var c09Cmds = map[string]string{
	"prev": "previous-history", "next": "next-history", "first": "beginning-of-history", "last": "end-of-history",
	"psearch-back": "history-search-backward", "psearch-fwd": "history-search-forward",
	"ssearch-back": "history-substring-search-backward", "ssearch-fwd": "history-substring-search-forward",
}

func c09Gen(r *rand.Rand, tier string, idx int) any {
	c := c09Case{}
	c.Mode = "emacs"
	c.W, c.H = 80, 24
	c.Inputrc = "set history-autosuggest off\nset convert-meta off\nset input-meta on\nset output-meta on\n"
	c.Hist = pick(r, c09Hists)
	c.Kind = pick(r, []string{"nav", "nav", "prefix", "substring", "isearch", "nav-calls", "vi-search"})
	multi := false
	for _, e := range c.Hist {
		if strings.Contains(e, "\n") {
			multi = true
		}
	}
	switch c.Kind {
	case "nav":
		c.T = pick(r, []string{"", "typing", "in progress text", "git"})
		ops := []string{"prev", "next", "first", "last", "prev", "next"}
		if !multi {
			ops = append(ops, "up", "down", "up", "down")
		}
		n := 1 + r.Intn(14)
		for i := 0; i < n; i++ {
			c.Ops = append(c.Ops, pick(r, ops))
		}
		if c.T != "" && r.Intn(3) == 0 {
			for i, k := 0, 1+r.Intn(3); i < k; i++ {
				c.Edit = append(c.Edit, pick(r, c09EditNames))
			}
		}
	case "prefix", "substring":
		c.T = pick(r, []string{"", "g", "gi", "git", "git c", "echo", "e", "o", "zzz", "a", "same", "(", "hello", "wö", "a.b", "a+b", ".", "foo[", "a*b", "^a", "b$", "\\", "aéx", "aé", "世界x", "世x", "éa"})
		if len(c.T) > 1 && r.Intn(3) == 0 {
			c.Back = 1 + r.Intn(len([]rune(c.T))-1)
		}
		if len(c.Hist) > 0 && r.Intn(2) == 0 {
			// a search text taken from the history itself: the first characters of an entry
			// (substring searches: any part of it), half of the time followed by a character
			// that the cursor is then moved back over
			e := []rune(strings.SplitN(pick(r, c.Hist), "\n", 2)[0])
			if len(e) > 0 {
				a, b := 0, 1+r.Intn(len(e))
				if c.Kind == "substring" {
					a = r.Intn(b)
				}
				c.T, c.Back = string(e[a:b]), 0
				if r.Intn(2) == 0 {
					c.T += pick(r, []string{"x", "é", "界"})
					c.Back = 1
				}
			}
		}
		pfx := "p"
		if c.Kind == "substring" {
			pfx = "s"
		}
		n := 1 + r.Intn(8)
		for i := 0; i < n; i++ {
			c.Ops = append(c.Ops, pfx+pick(r, []string{"search-back", "search-back", "search-fwd"}))
		}
	case "nav-calls":
		ops := []string{"prev", "next", "first", "last", "prev", "next", "prev"}
		for k, nc := 0, 2+r.Intn(3); k < nc; k++ {
			// (texts differ from call to call: a typed text equal to the newest entry would make
			// "end of history" ambiguous for the model)
			call := c09Call{T: pick(r, []string{"", "", "new line " + fmt.Sprint(k), "typed then left " + fmt.Sprint(k), "git" + fmt.Sprint(k)})}
			for i, n := 0, r.Intn(7); i < n; i++ {
				call.Ops = append(call.Ops, pick(r, ops))
			}
			c.Calls = append(c.Calls, call)
		}
	case "vi-search":
		// Vi command mode: ?text RET (or /text RET after going up), then n / N repeated
		c.Mode = "vi"
		c.T = pick(r, []string{"", "abc", "typed", "gi"})
		c.Pattern = pick(r, []string{"g", "git", "echo", "o", "zzz", "a.b", "a+b", "(", "wö", "世", "same", "e", "a", "ab"})
		if len(c.Hist) > 0 && r.Intn(2) == 0 {
			e := []rune(strings.SplitN(pick(r, c.Hist), "\n", 2)[0])
			if len(e) > 0 {
				a := r.Intn(len(e))
				c.Pattern = string(e[a : a+1+r.Intn(len(e)-a)])
			}
		}
		c.Ops = []string{pick(r, []string{"search-back", "search-back", "up+search-fwd"})}
		for i, n := 0, r.Intn(7); i < n; i++ {
			c.Ops = append(c.Ops, pick(r, []string{"n", "n", "N"}))
		}
	case "isearch":
		c.T = pick(r, []string{"", "typed", "git", "ec", "gi", "ls", "fo", "he"})
		if r.Intn(3) == 0 {
			c.Dels = -1 // the whole search text is deleted again
		} else if r.Intn(4) == 0 {
			c.Dels = 1
		}
		c.Pattern = pick(r, []string{"g", "git", "echo", "ECHO", "o", "zzz", "([", "(", "a.b", "a+b", ".", "^e", "c$", "wö", "世", "[", "\\"})
		n := r.Intn(4)
		if c.Dels != 0 {
			n = 0 // (a repeated search key may end the search: the deletions would edit the line)
		}
		c.Ops = append(c.Ops, "start-"+pick(r, []string{"back", "fwd"}))
		for i := 0; i < n; i++ {
			c.Ops = append(c.Ops, pick(r, []string{"again-back", "again-back", "again-fwd"}))
		}
		c.Leave = pick(r, []string{"esc", "ret", "abort"})
	}
	return c
}

func c09Run(env *fw.Env, raw json.RawMessage) fw.Outcome {
	var c c09Case
	unmarshal(raw, &c)
	var o fw.Out
	cfg := c.cfg()
	cfg.Setup = func(s *sess.Session) {
		for op, k := range c09Keys {
			if cmd, ok := c09Cmds[op]; ok {
				s.Sh.Config.Bind("emacs", k, cmd, false)
			}
		}
	}
	s := sess.New(env.T, env.Scratch, cfg)
	defer s.Close()
	E := c.Hist
	n := len(E)
	before := append([]string{}, E...)
	var plan []sess.Step
	if c.T != "" {
		plan = append(plan, sess.Step{W: c.T, Tag: "type"})
	}
	for _, e := range c.Edit {
		// (one key per read, so that every buffer is observed)
		ks := c09Edits[e]
		for len(ks) > 0 {
			k := 1
			if ks[0] == 0x1b {
				k = 2
			}
			plan = append(plan, sess.Step{W: ks[:k], Tag: "edit"})
			ks = ks[k:]
		}
	}
	for i := 0; i < c.Back; i++ {
		plan = append(plan, sess.Step{W: "\x02", Tag: "back"})
	}
	first := len(plan)
	// isearch: what is left of the search text after the deletions
	dels := c.Dels
	if dels < 0 || dels > len([]rune(c.Pattern)) {
		dels = len([]rune(c.Pattern))
	}
	effPattern := string([]rune(c.Pattern)[:len([]rune(c.Pattern))-dels])
	if c.Kind == "nav-calls" {
		c09NavCalls(env, &c, s, &o)
		o.O.Sample = map[string]any{"kind": c.Kind, "history": c.Hist, "calls": c.Calls}
		return o.O
	}
	switch c.Kind {
	case "isearch":
		for _, op := range c.Ops {
			switch op {
			case "start-back":
				plan = append(plan, sess.Step{W: "\x12", Tag: op})
				plan = append(plan, sess.Step{W: c.Pattern, Tag: "pattern"})
			case "start-fwd":
				plan = append(plan, sess.Step{W: "\x13", Tag: op})
				plan = append(plan, sess.Step{W: c.Pattern, Tag: "pattern"})
			case "again-back":
				plan = append(plan, sess.Step{W: "\x12", Tag: op})
			case "again-fwd":
				plan = append(plan, sess.Step{W: "\x13", Tag: op})
			}
		}
		for i := 0; i < dels; i++ {
			plan = append(plan, sess.Step{W: "\x7f", Tag: "delete"})
		}
		switch c.Leave {
		case "esc":
			plan = append(plan, sess.Step{W: "\x1b", Tag: "leave"})
		case "abort":
			plan = append(plan, sess.Step{W: "\x07", Tag: "leave"})
		case "ret":
			plan = append(plan, sess.Step{W: "\r", Tag: "leave"})
		}
	case "vi-search":
		plan = append(plan, sess.Step{W: "\x1b", Tag: "esc"})
		first = len(plan)
		for _, op := range c.Ops {
			switch op {
			case "search-back":
				plan = append(plan, sess.Step{W: "?", Tag: "open"}, sess.Step{W: c.Pattern, Tag: "pattern"}, sess.Step{W: "\r", Tag: "search"})
			case "up+search-fwd":
				plan = append(plan, sess.Step{W: "k", Tag: "up"}, sess.Step{W: "k", Tag: "up"}, sess.Step{W: "/", Tag: "open"}, sess.Step{W: c.Pattern, Tag: "pattern"}, sess.Step{W: "\r", Tag: "search"})
			default:
				plan = append(plan, sess.Step{W: op, Tag: "again"})
			}
		}
	default:
		for _, op := range c.Ops {
			plan = append(plan, sess.Step{W: c09Keys[op], Tag: op})
		}
	}
	res := s.Call(plan, retExit)
	ctx := fmt.Sprintf("kind=%s history=%q T=%q back=%d ops=%v pattern=%q deleted=%d leave=%s", c.Kind, E, c.T, c.Back, c.Ops, c.Pattern, dels, c.Leave)
	if !stdFailures(&o, res, "history-command-failed: "+ctx) {
		o.O.Sample = map[string]any{"ctx": ctx}
		return o.O
	}
	after := map[int]*sess.Snap{}
	for i := range res.Waits {
		w := &res.Waits[i]
		if w.Kind == "main" {
			after[w.Step-1] = w
		}
	}
	histClass := fmt.Sprintf("n%d", n)
	if n > 3 {
		histClass = "n>3"
	}
	if len(c.Edit) > 0 {
		// the text being typed is what the buffer holds when the first history command arrives
		w, ok := after[first-1]
		if !ok {
			o.Inc("buffer before the first history command not observed")
			return o.O
		}
		c.T = w.Line
		o.Add("cases_whose_in_progress_text_was_edited_before_the_walk", 1)
		ctx += fmt.Sprintf(" edit=%v in-progress-text-at-the-first-history-command=%q", c.Edit, c.T)
	}
	switch c.Kind {
	case "nav":
		p := 0
		for i := first; i < len(plan); i++ {
			w, ok := after[i]
			if !ok {
				break
			}
			switch plan[i].Tag {
			case "prev", "up":
				if p < n {
					p++
				}
			case "next", "down":
				if p > 0 {
					p--
				}
			case "first":
				if n > 0 {
					p = n
				}
			case "last":
				p = 0
			}
			want := c.T
			if p > 0 {
				want = E[n-p]
			}
			// end-of-history: the statement does not say whether the end is the newest entry
			// or the line being typed; either is accepted and the model follows
			if plan[i].Tag == "last" && n > 0 && w.Line == E[n-1] && w.Line != want {
				p, want = 1, E[n-1]
			}
			o.O.Events++
			o.Cover(fmt.Sprintf("nav|%s|%s|p%d", plan[i].Tag, histClass, min(p, 4)))
			if w.Line != want {
				sig := "navigation-shows-wrong-entry|" + plan[i].Tag
				if p == 0 {
					sig = "in-progress-text-not-restored|" + plan[i].Tag
				}
				o.Viol(sig, ctx+fmt.Sprintf(" step %d (%s): expected %q (position %d of %d), buffer is %q", i-first, plan[i].Tag, want, p, n, w.Line))
				break
			}
		}
	case "prefix", "substring":
		rs := []rune(c.T)
		key := string(rs[:len(rs)-c.Back])
		// the documented search text is "the characters between the start of the line and the
		// point": whenever the buffer is the in-progress text again, the point at that moment
		// defines another legitimate search text
		keys := map[string]bool{key: true}
		for i := first; i < len(plan); i++ {
			w, ok := after[i]
			if !ok {
				break
			}
			if pw, ok := after[i-1]; ok {
				pr := []rune(pw.Line)
				if pw.Pos <= len(pr) {
					keys[string(pr[:pw.Pos])] = true
				}
			}
			o.O.Events++
			o.Cover(fmt.Sprintf("%s|%s|%s|keylen%d", c.Kind, plan[i].Tag, histClass, min(len(key), 4)))
			okBuf := w.Line == c.T
			for _, e := range E {
				for k := range keys {
					if c.Kind == "prefix" && strings.HasPrefix(e, k) && w.Line == e {
						okBuf = true
					}
					if c.Kind == "substring" && (strings.Contains(e, k) || strings.Contains(e, c.T)) && w.Line == e {
						okBuf = true
					}
				}
			}
			if !okBuf {
				inHist := false
				for _, e := range E {
					if e == w.Line {
						inHist = true
					}
				}
				sig := c.Kind + "-search-shows-a-buffer-that-is-neither-the-text-nor-an-entry"
				if inHist {
					sig = c.Kind + "-search-shows-an-entry-that-does-not-match"
				}
				o.Viol(sig, ctx+fmt.Sprintf(" step %d (%s): search text %q, buffer is %q", i-first, plan[i].Tag, key, w.Line))
				break
			}
		}
	case "vi-search":
		// after the search and after every n / N the buffer is the in-progress text or an entry
		// that the search text matches (as a case-insensitive regexp or as a literal substring:
		// the lenient union, as for the incremental search)
		re, rerr := regexp.Compile("(?i)" + c.Pattern)
		for i := first; i < len(plan); i++ {
			w, ok := after[i]
			if !ok {
				break
			}
			if plan[i].Tag != "search" && plan[i].Tag != "again" {
				continue
			}
			if w.Main != "vi-command" || w.Local != "" {
				o.Add("vi_search_waits_outside_command_mode_not_judged", 1)
				break
			}
			o.O.Events++
			o.Cover(fmt.Sprintf("vi-search|%s|%s|%s|%s", c.Ops[0], plan[i].Tag+plan[i].W, histClass, patClass(c.Pattern)))
			okBuf := w.Line == c.T
			isEntry := false
			for _, e := range E {
				if w.Line != e {
					continue
				}
				isEntry = true
				if strings.Contains(strings.ToLower(e), strings.ToLower(c.Pattern)) || (rerr == nil && re.MatchString(e)) {
					okBuf = true
				}
			}
			if !okBuf {
				sig := "vi-search-shows-a-buffer-that-is-neither-the-text-nor-an-entry|" + plan[i].Tag
				if isEntry {
					sig = "vi-search-shows-an-entry-that-does-not-match|" + plan[i].Tag
				}
				o.Viol(sig, ctx+fmt.Sprintf(" after step %d (%s %q): buffer %q", i, plan[i].Tag, plan[i].W, w.Line))
				break
			}
		}
	case "isearch":
		// the buffer once the minibuffer is left: snapshot at the first wait after the leave key
		var final string
		got := false
		if c.Leave == "ret" {
			// RET in isearch accepts the match into the line; the call continues until the exit RET
			if w, ok := after[len(plan)-1]; ok {
				final, got = w.Line, true
			} else if res.Returned {
				final, got = res.Line, true
			}
		} else if w, ok := after[len(plan)-1]; ok && w.Local != "isearch" {
			final, got = w.Line, true
		}
		if got {
			o.O.Events++
			o.Cover(fmt.Sprintf("isearch|%s|%s|%s|again%d", c.Leave, histClass, patClass(c.Pattern), len(c.Ops)-1))
			okBuf := final == c.T
			// with the whole search text deleted again nothing is searched for: only the
			// in-progress text is legitimate
			if c.Leave != "abort" && effPattern != "" {
				re, err := regexp.Compile("(?i)" + effPattern)
				for _, e := range E {
					if final != e {
						continue
					}
					if strings.Contains(strings.ToLower(e), strings.ToLower(effPattern)) || (err == nil && re.MatchString(e)) {
						okBuf = true
					}
				}
			}
			if !okBuf {
				// narrow class: how the search was started/continued, whether text was being typed
				how := strings.TrimPrefix(c.Ops[0], "start-")
				for _, op := range c.Ops[1:] {
					if op == "again-fwd" {
						how += "+again-fwd"
						break
					}
				}
				tcls := "typed-text"
				if c.T == "" {
					tcls = "empty-line"
				}
				sig := "isearch-leaves-a-non-matching-buffer|" + how + "|" + tcls + "|" + c.Leave
				if c.Leave == "abort" {
					sig = "isearch-abort-does-not-restore-the-text|" + how + "|" + tcls
				}
				distinct := map[string]bool{}
				for _, e := range E {
					distinct[e] = true
				}
				if patClass(effPattern) == "invalid-regexp" {
					sig += "|invalid-regexp"
				}
				if dels > 0 {
					sig += fmt.Sprintf("|search-text-%s", map[bool]string{true: "deleted-entirely", false: "partly-deleted"}[effPattern == ""])
				}
				if len(distinct) == 1 && final == E[0] {
					sig = "isearch-on-a-history-with-one-distinct-entry-inserts-it-whatever-the-pattern"
				}
				o.Viol(sig, ctx+fmt.Sprintf(": buffer after leaving the search is %q", final))
			}
		} else {
			o.Add("isearch_final_buffer_not_observed", 1)
		}
	}
	// non-destructive: the source holds what it held (+ the accepted line, C08's subject)
	o.O.Events++
	cur := dumpSrc(s.Sh.History.Current())
	if len(cur) < len(before) || !eqStrings(cur[:len(before)], before) {
		o.Viol("history-entries-modified-by-navigation-or-search|"+c.Kind, ctx+fmt.Sprintf(" before=%q after=%q", before, cur))
	}
	if env.Verbose {
		var tr []string
		for i := range plan {
			if w, ok := after[i]; ok {
				tr = append(tr, fmt.Sprintf("%d %s -> %q local=%s", i, plan[i].Tag, w.Line, w.Local))
			}
		}
		o.O.Trace = tr
	}
	o.O.Sample = map[string]any{"kind": c.Kind, "history": E, "T": c.T, "ops": c.Ops, "pattern": c.Pattern, "leave": c.Leave}
	return o.O
}

// c09NavCalls: several calls on the same Shell. Each call types its text, walks through the
// history and accepts what the buffer then holds; the history model grows by the accepted line
// (unless blank or equal to the newest entry). In every call the entries must show in order,
// most recent first, and the text being typed must come back below the newest entry.
func c09NavCalls(env *fw.Env, c *c09Case, s *sess.Session, o *fw.Out) {
	E := append([]string{}, c.Hist...)
	for ci, call := range c.Calls {
		var plan []sess.Step
		if call.T != "" {
			plan = append(plan, sess.Step{W: call.T, Tag: "type"})
		}
		first := len(plan)
		for _, op := range call.Ops {
			plan = append(plan, sess.Step{W: c09Keys[op], Tag: op})
		}
		res := s.Call(plan, retExit)
		ctx := fmt.Sprintf("kind=nav-calls call %d/%d history now=%q T=%q ops=%v (initial history %q)", ci+1, len(c.Calls), E, call.T, call.Ops, c.Hist)
		if !stdFailures(o, res, "history-command-failed: "+ctx) {
			return
		}
		after := map[int]*sess.Snap{}
		for i := range res.Waits {
			w := &res.Waits[i]
			if w.Kind == "main" {
				after[w.Step-1] = w
			}
		}
		n := len(E)
		p := 0
		want := call.T
		for i := first; i < len(plan); i++ {
			w, ok := after[i]
			if !ok {
				break
			}
			switch plan[i].Tag {
			case "prev":
				if p < n {
					p++
				}
			case "next":
				if p > 0 {
					p--
				}
			case "first":
				if n > 0 {
					p = n
				}
			case "last":
				p = 0
			}
			want = call.T
			if p > 0 {
				want = E[n-p]
			}
			if plan[i].Tag == "last" && n > 0 && w.Line == E[n-1] && w.Line != want {
				p, want = 1, E[n-1]
			}
			o.O.Events++
			o.Cover(fmt.Sprintf("nav-calls|call%d|%s|p%d", min(ci+1, 3), plan[i].Tag, min(p, 4)))
			if w.Line != want {
				sig := "navigation-shows-wrong-entry|" + plan[i].Tag + "|later-call"
				if ci == 0 {
					sig = "navigation-shows-wrong-entry|" + plan[i].Tag
				}
				if p == 0 {
					sig = "in-progress-text-not-restored|" + plan[i].Tag
				}
				o.Viol(sig, ctx+fmt.Sprintf(" step %d (%s): expected %q (position %d of %d), buffer is %q", i-first, plan[i].Tag, want, p, n, w.Line))
				return
			}
		}
		if !res.Returned || res.Err != "" {
			o.Inc("a call of a multi-call walk did not return a line")
			return
		}
		if res.Line != want {
			o.Viol("accepted-line-is-not-the-buffer-shown|nav-calls", ctx+fmt.Sprintf(": returned %q, the buffer was %q", res.Line, want))
			return
		}
		if t := strings.TrimSpace(res.Line); t != "" && (len(E) == 0 || E[len(E)-1] != t) {
			E = append(E, t)
		}
		// the source holds the model
		cur := dumpSrc(s.Sh.History.Current())
		if !eqStrings(cur, E) {
			o.Viol("history-differs-from-the-model-after-a-call|nav-calls", ctx+fmt.Sprintf(": source %q, model %q", cur, E))
			return
		}
	}
}

func patClass(p string) string {
	if _, err := regexp.Compile(p); err != nil {
		return "invalid-regexp"
	}
	if regexp.QuoteMeta(p) != p {
		return "regexp-metachars"
	}
	return "literal"
}

func init() {
	fw.Register(&fw.Prop{
		ID:        "C09",
		Level:     "exploration",
		NeedsTerm: true,
		Rule: "Vi searches in one case in seven (text typed, ESC, ?text RET or k k /text RET, then 0-6 n / N: after each the buffer is the in-progress text or an entry the text matches); otherwise: 10 history shapes (empty, one entry, all duplicates, prefix chains, multi-line, mixed case, regexp metacharacters, Unicode) x in-progress texts x: (nav) walks of 1-14 previous/next/beginning/end-of-history and up/down-line-or-history steps, compared at every wait with a reference position model incl. both ends and restoration of the in-progress text; (prefix/substring) 1-8 history-search-* / history-substring-search-* steps with the cursor optionally moved back: buffer in {text} U {entries with that prefix / containing it}; (isearch) C-r/C-s + pattern (literal, metacharacters, invalid regexps) + repeats, left by ESC / RET / C-g: buffer in {text} U {entries matching as case-insensitive regexp or literal substring}, C-g restores the text; plus source contents unchanged. " +
			"distinct non-trivial = distinct (kind, operation, history size class, position / key length / pattern class) tuples",
		Assumptions: []string{"Emacs mode; the four *-of-history and four search commands are bound by name to C-x prefixed probe keys", "a command failure (panic, hang) in these workloads is a violation of this property ('none of these commands fails at either end')"},
		N: func(tier string) int {
			if tier == "thorough" {
				return 60000
			}
			return 3000
		},
		Gen: c09Gen,
		Run: c09Run,
	})
}
