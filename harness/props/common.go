// Package props holds one generator + monitor per property C01–C20.
package props

import (
	"encoding/json"
	"fmt"
	"math/rand"
	"sort"
	"strconv"
	"strings"
	"unicode/utf8"

	"github.com/reeflective/readline"

	"verif/fw"
	"verif/sess"
)

// q renders bytes readably for evidence/details.
func q(s string) string { return strconv.QuoteToASCII(s) }

func qsteps(st []sess.Step) []string {
	var out []string
	for _, s := range st {
		switch {
		case s.EOF:
			out = append(out, "<EOF>")
		case s.EIO:
			out = append(out, "<EIO>")
		default:
			x := q(s.W)
			if s.Do != "" {
				x = "<" + s.Do + ":" + s.Arg + ">" + x
			}
			out = append(out, x)
		}
	}
	return out
}

func unmarshal(raw json.RawMessage, v any) {
	if err := json.Unmarshal(raw, v); err != nil {
		panic(fmt.Sprint("harness: bad case json: ", err))
	}
}

func pick[T any](r *rand.Rand, xs []T) T { return xs[r.Intn(len(xs))] }

// keyBytes turns a bind-table sequence (runes; meta keys are 0x80|c) into the bytes a terminal
// sends: meta-encoded runes are sent as ESC-prefixed keys, everything else as UTF-8.
func keyBytes(seq string) string {
	var b []byte
	for _, r := range seq {
		if r >= 0x80 && r <= 0xff {
			b = append(b, 0x1b, byte(r&0x7f))
		} else {
			b = utf8.AppendRune(b, r)
		}
	}
	return string(b)
}

var allKeymaps = []string{"emacs", "emacs-meta", "emacs-ctlx", "vi-insert", "vi-command", "vi-opp", "vi-visual", "menu-select", "isearch"}

// boundSeqs lists (sorted) every bound sequence of the given keymaps in the shell's configuration.
func boundSeqs(sh *readline.Shell, keymaps ...string) []string {
	seen := map[string]bool{}
	var out []string
	for _, km := range keymaps {
		for seq := range sh.Config.Binds[km] {
			if seq == "" || seen[seq] {
				continue
			}
			seen[seq] = true
			out = append(out, seq)
		}
	}
	sort.Strings(out)
	return out
}

// stdFailures converts the generic failure modes of a call (panic, read storm, deadlock, CPU
// spin, hang) into findings/inconclusives. It returns false when the call produced no usable
// observation of the property under check.
func stdFailures(o *fw.Out, res *sess.Result, ctx string) bool {
	switch {
	case res.Panic != "":
		o.Viol(fw.CrashSig(res.Panic, res.Stack), ctx+" panic: "+res.Panic+"\n"+trimStack(res.Stack))
		return false
	case res.Storm:
		o.Viol("read-storm", ctx+fmt.Sprintf(" more than %d consecutive failing reads after the terminal input ended/failed without Readline returning", sess.MaxFaultReads))
		return false
	case res.CPUSpin:
		o.O.Recycle = true
		maxLen := 0
		for _, w := range res.Waits {
			if n := len(w.Line); n > maxLen {
				maxLen = n
			}
		}
		if maxLen > 4096 {
			o.Inc("CPU limit exceeded with a buffer beyond the stated 4 KiB bound (numeric arguments multiplied the text)")
			return false
		}
		kind := "cpu-spin"
		if res.MemBlowup {
			kind = "mem-runaway"
		}
		o.Viol(kind+":"+commandFrame(sess.ReadlineStack(res.Dump)), ctx+" CPU/memory limit exceeded inside one call\n"+trimStack(sess.ReadlineStack(res.Dump)))
		return false
	case res.Stuck:
		o.Viol("stuck-keystroke", ctx+" bytes typed for this wait were consumed by another goroutine: the terminal queue is empty and Readline is still parked in its read\n"+trimStack(res.Dump))
		o.O.Recycle = true
		return false
	case res.Deadlock:
		o.Viol("deadlock:"+topRepoFrames(sess.ReadlineStack(res.Dump)), ctx+" Readline goroutine blocked in library code\n"+trimStack(sess.ReadlineStack(res.Dump)))
		o.O.Recycle = true
		return false
	case res.Hung:
		o.Inc("wall-clock watchdog without logical classification")
		o.O.Recycle = true
		return false
	}
	if res.SyncErr {
		o.Inc("emulator sync timeout")
		o.O.Recycle = true
		return false
	}
	return true
}

// commandFrame names the function running directly under Shell.execute (the bound command), or
// directly under Shell.Readline, in a goroutine stanza: a stable signature for a spin, whatever
// leaf function the dump happened to catch.
func commandFrame(stack string) string {
	var fns []string
	for _, l := range strings.Split(stack, "\n") {
		if l == "" || strings.HasPrefix(l, "\t") || strings.HasPrefix(l, "goroutine ") {
			continue
		}
		if i := strings.LastIndex(l, "("); i > 0 {
			l = l[:i]
		}
		fns = append(fns, l)
	}
	short := func(fn string) string {
		fn = strings.TrimPrefix(fn, "github.com/reeflective/readline")
		fn = strings.TrimPrefix(fn, "/")
		return strings.TrimPrefix(fn, "internal/")
	}
	for _, anchor := range []string{".(*Shell).execute", ".(*Shell).Readline"} {
		for i, f := range fns {
			if strings.HasSuffix(f, anchor) && i > 0 {
				return short(fns[i-1])
			}
		}
	}
	if len(fns) > 0 {
		return short(fns[0])
	}
	return "unknown"
}

func trimStack(s string) string {
	if len(s) > 2500 {
		s = s[:2500]
	}
	return s
}

func topRepoFrames(stack string) string {
	sig := fw.CrashSig("", stack)
	if i := strings.Index(sig, "@"); i >= 0 {
		return sig[i+1:]
	}
	return sig
}

// shellCfg is the JSON-able part of a session configuration shared by most cases.
type shellCfg struct {
	Mode    string   `json:"mode"`
	Inputrc string   `json:"inputrc,omitempty"`
	W       int      `json:"w"`
	H       int      `json:"h"`
	Hist    []string `json:"hist,omitempty"`
	Prompt  string   `json:"prompt,omitempty"`
}

func (c shellCfg) cfg() sess.Config {
	return sess.Config{Mode: c.Mode, Inputrc: c.Inputrc, W: c.W, H: c.H, Hist: c.Hist, Prompt: c.Prompt}
}

func steps(ws ...string) []sess.Step {
	var out []sess.Step
	for _, w := range ws {
		out = append(out, sess.Step{W: w})
	}
	return out
}

var retExit = []sess.Step{{W: "\r"}}

// stdHist is a pool of history entries chosen to hit tokenizers, widths and multi-line code.
var stdHist = []string{
	"echo hello world", "ls -la /tmp", "git commit -m 'x y'", "foo(bar[1]) {baz}", "a\nb\nc",
	"世界 wörld", "git push origin main", "echo", "  padded  ", "x", "if true; then\n  echo \"hi\"\nfi",
	"https://example.com/a?b=c&d=e", "0x1f + 0b11 - 1e9", "tab\there", "éà combining", "한국어 テスト",
	"\"unclosed quote", "a\\ b\\ c", "git", "git commit", "--flag=value --other", "(((nested)))",
}

func genHist(r *rand.Rand, max int) []string {
	n := r.Intn(max + 1)
	var out []string
	for i := 0; i < n; i++ {
		out = append(out, pick(r, stdHist))
	}
	return out
}

func clampStr(s string, n int) string {
	if len(s) > n {
		return s[:n] + "…"
	}
	return s
}
