package props

import (
	"encoding/json"
	"fmt"
	"math/rand"
	"os"
	"path/filepath"
	"strings"

	"github.com/reeflective/readline"

	"verif/fw"
)

// C10: file-backed history survives restarts and crashes. No terminal: the real
// NewHistoryFromFile / Write / GetLine on real files; crash points are enumerated by cutting the
// file at every byte offset of the last append (the append is one write(2) with O_APPEND, so a
// crash leaves a byte prefix of the last record).

type c10Case struct {
	Lines []string `json:"lines"`
	Fresh string   `json:"fresh"`
	Big   bool     `json:"big"`
	// Huge > 0: Lines[HugeAt] is replaced, when the case runs, by a record of this many bytes
	Huge   int `json:"huge,omitempty"`
	HugeAt int `json:"huge_at,omitempty"`
}

var c10Atoms = []string{"echo hello", "ls -la", "git commit -m \"x y\"", "a\\b\\\\c", "tab\there", "multi\nline\nentry", "quote ' and \" and `", "世界 wörld 🎉", "ctrl\x01\x02\x1b[31mred", "u2028 sep ", "{\"json\":true}", "}", "{", "\\n literal", "trailing space   ", "   leading", "\r\nCRLF\r\n", "nul\x00byte", "é", "x"}

func c10Line(r *rand.Rand, big bool) string {
	switch k := r.Intn(20); {
	case k == 0:
		return pick(r, []string{"", " ", "\t", "\n", "  \n "})
	case k == 1 && big:
		// long records, around and beyond the 64 KiB token limit of a default bufio.Scanner
		n := pick(r, []int{4000, 65000, 65536, 66000, 70000, 131072, 200000})
		return strings.Repeat(pick(r, []string{"a", "世", "ab \" ", "\\"}), n/2)[:n/2] + "END"
	case k < 8:
		return pick(r, c10Atoms)
	default:
		n := 1 + r.Intn(4)
		var parts []string
		for i := 0; i < n; i++ {
			parts = append(parts, pick(r, c10Atoms))
		}
		return strings.Join(parts, pick(r, []string{" ", "", "\n", ";"}))
	}
}

func c10Gen(r *rand.Rand, tier string, idx int) any {
	c := c10Case{Big: idx%12 == 0}
	n := 1 + r.Intn(8)
	for i := 0; i < n; i++ {
		l := c10Line(r, c.Big)
		if i > 0 && r.Intn(6) == 0 {
			l = c.Lines[i-1] // consecutive duplicate
		}
		c.Lines = append(c.Lines, l)
	}
	c.Fresh = "fresh-entry-" + pick(r, c10Atoms)
	if idx%100 == 50 {
		// one record above 1 MiB (a pasted script), followed by ordinary ones
		c.Huge = pick(r, []int{1 << 20, 1100000, 2200000, 3 << 20})
		c.HugeAt = r.Intn(len(c.Lines))
		if len(c.Lines) == 1 || c.HugeAt == len(c.Lines)-1 {
			c.Lines = append(c.Lines, pick(r, c10Atoms)+" after the long one")
		}
	}
	return c
}

func c10Read(path string) ([]string, error) {
	h, err := readline.NewHistoryFromFile(path)
	if h == nil {
		return nil, fmt.Errorf("nil history: %v", err)
	}
	var out []string
	for i := 0; i < h.Len(); i++ {
		l, e := h.GetLine(i)
		if e != nil {
			return out, fmt.Errorf("GetLine(%d): %v", i, e)
		}
		out = append(out, l)
	}
	return out, err
}

// c10Norm: trimmed, blanks dropped, consecutive duplicates collapsed (both are allowed to be
// absent by the statement).
func c10Norm(ls []string) []string {
	var out []string
	for _, l := range ls {
		t := strings.TrimSpace(l)
		if t == "" {
			continue
		}
		if len(out) > 0 && out[len(out)-1] == t {
			continue
		}
		out = append(out, t)
	}
	return out
}

func eqStrings(a, b []string) bool {
	if len(a) != len(b) {
		return false
	}
	for i := range a {
		if a[i] != b[i] {
			return false
		}
	}
	return true
}

func sizeClass(n int) string {
	switch {
	case n < 100:
		return "tiny"
	case n < 4096:
		return "small"
	case n < 65536:
		return "large"
	default:
		return "over-64KiB"
	}
}

func c10Run(env *fw.Env, raw json.RawMessage) fw.Outcome {
	var c c10Case
	unmarshal(raw, &c)
	var o fw.Out
	dir, _ := os.MkdirTemp(env.Scratch, "c10-")
	defer os.RemoveAll(dir)
	path := filepath.Join(dir, "hist")
	h, _ := readline.NewHistoryFromFile(path)
	if h == nil {
		o.Viol("constructor-returned-nil", "NewHistoryFromFile on a missing file returned a nil source")
		return o.O
	}
	if c.Huge > 0 && c.HugeAt < len(c.Lines) {
		c.Lines[c.HugeAt] = strings.Repeat("0123456789abcde ", c.Huge/16) + "END"
		o.Add("cases_with_a_record_above_1MiB", 1)
	}
	var bounds []int64 // file size after each successful write
	var written []string
	for _, l := range c.Lines {
		_, err := h.Write(l)
		if err != nil {
			o.Inc("Write returned an error: " + err.Error())
			break
		}
		st, err := os.Stat(path)
		sz := int64(0)
		if err == nil {
			sz = st.Size()
		}
		bounds = append(bounds, sz)
		written = append(written, l)
	}
	o.O.Events++
	maxLen := 0
	for _, l := range written {
		if len(l) > maxLen {
			maxLen = len(l)
		}
	}
	o.Cover(fmt.Sprintf("roundtrip|n%d|%s", len(written), sizeClass(maxLen)))
	// round trip
	got, err := c10Read(path)
	want := c10Norm(written)
	if _, serr := os.Stat(path); serr != nil && len(want) == 0 {
		err = nil // nothing was ever written: no file
	}
	switch {
	case err != nil:
		o.Viol("reopen-failed", fmt.Sprintf("reopening after %d writes failed: %v", len(written), err))
	case !eqStrings(c10Norm(got), want):
		sig := "roundtrip-differs"
		if maxLen >= 65536 {
			sig = "roundtrip-differs|record-over-64KiB"
		}
		o.Viol(sig, fmt.Sprintf("wrote %d lines %s\nexpected %d entries, reopened history has %d: first difference at %d", len(written), qs(written), len(want), len(c10Norm(got)), firstDiff(c10Norm(got), want)))
	}
	// crash points: cut the last append at every byte offset
	data, _ := os.ReadFile(path)
	k := len(written)
	if k > 0 && len(data) > 0 && len(o.O.Findings) == 0 {
		lo := int64(0)
		if k > 1 {
			lo = bounds[k-2]
		}
		hi := bounds[k-1]
		prevWant := c10Norm(written[:k-1])
		fullWant := want
		step := int64(1)
		if hi-lo > 4096 {
			step = (hi - lo) / 1500
		}
		cut := filepath.Join(dir, "cut")
		points := 0
		for off := lo; off < hi; off += step {
			if off == lo && lo == 0 {
				// an empty file is the state before the first write
			}
			os.WriteFile(cut, data[:off], 0o600)
			points++
			got, err := c10Read(cut)
			g := c10Norm(got)
			complete := off >= hi-1 // everything but the final newline
			switch {
			case err != nil:
				o.Viol("reopen-after-torn-append-failed", fmt.Sprintf("file cut at byte %d of [%d,%d): %v", off, lo, hi, err))
			case eqStrings(g, prevWant) || (complete && eqStrings(g, fullWant)) || (off == lo && eqStrings(g, prevWant)):
			default:
				o.Viol("completed-entries-lost-after-torn-append", fmt.Sprintf("file cut at byte %d of the last record [%d,%d): expected the %d completed entries, got %d (%s)", off, lo, hi, len(prevWant), len(g), qs(tail(g, 3))))
			}
			if len(o.O.Findings) > 0 {
				break
			}
			// entries written after reopening are durable again; the file is reopened through
			// the constructor, or bound to a Shell with History.AddFromFile (every third point)
			via := "NewHistoryFromFile"
			if points%3 == 0 {
				via = "Shell.History.AddFromFile"
				os.Setenv("INPUTRC", "/dev/null")
				sh := readline.NewShell()
				sh.History.AddFromFile("verif file source", cut)
				sh.Line().Set([]rune(c.Fresh)...)
				sh.History.Write(false) // what accepting the line does
				o.Add("appends_after_a_crash_through_a_shell_bound_source", 1)
			} else {
				h2, _ := readline.NewHistoryFromFile(cut)
				if h2 == nil {
					o.Viol("reopen-after-torn-append-failed", "nil source")
					break
				}
				if _, err := h2.Write(c.Fresh); err != nil {
					o.Inc("Write after reopen failed: " + err.Error())
					continue
				}
			}
			if points%4 == 1 && k > 1 {
				// the same crash seen by a source that was open before it: a second source on the
				// same file (another Shell, another terminal) was loaded when the file held the
				// completed entries; the other writer then died inside its append; the survivor
				// writes its own entry. Its Write succeeded, so a reopened history returns it.
				shared := filepath.Join(dir, "shared")
				os.WriteFile(shared, data[:lo], 0o600)
				hs, _ := readline.NewHistoryFromFile(shared)
				if hs == nil {
					o.Viol("reopen-after-torn-append-failed", "nil source")
					break
				}
				if f, err := os.OpenFile(shared, os.O_APPEND|os.O_WRONLY, 0o600); err == nil {
					f.Write(data[lo:off])
					f.Close()
				}
				if _, err := hs.Write(c.Fresh); err != nil {
					o.Inc("Write of the surviving source failed: " + err.Error())
					continue
				}
				o.Add("appends_by_a_source_open_before_another_writer_crashed", 1)
				gs, err := c10Read(shared)
				g := c10Norm(gs)
				w1 := c10Norm(append(append([]string{}, prevWant...), c.Fresh))
				w2 := c10Norm(append(append([]string{}, fullWant...), c.Fresh))
				if err != nil || !(eqStrings(g, w1) || (complete && eqStrings(g, w2))) {
					o.Viol("append-by-a-surviving-source-after-another-writers-torn-append-not-durable", fmt.Sprintf("%d completed entries, a source opened, then %d of the %d bytes of another writer's record appended, then %q written through the open source and the file reopened: expected %d entries ending with the fresh one, got %d (%s) err=%v", len(prevWant), off-lo, hi-lo, c.Fresh, len(w1), len(g), qs(tail(g, 3)), err))
					break
				}
			}
			got2, err := c10Read(cut)
			g2 := c10Norm(got2)
			w1 := c10Norm(append(append([]string{}, prevWant...), c.Fresh))
			w2 := c10Norm(append(append([]string{}, fullWant...), c.Fresh))
			if err != nil || !(eqStrings(g2, w1) || (complete && eqStrings(g2, w2))) {
				o.Viol("append-after-torn-tail-not-durable", fmt.Sprintf("file cut at byte %d of the last record [%d,%d), then %q appended through "+via+" and the file reopened: expected %d entries ending with the fresh one, got %d (%s) err=%v", off, lo, hi, c.Fresh, len(w1), len(g2), qs(tail(g2, 3)), err))
				break
			}
		}
		o.O.Events += points
		o.Add("crash_points", points)
		o.Cover(fmt.Sprintf("crash|%s|%s", sizeClass(int(hi-lo)), map[bool]string{true: "sampled", false: "every-offset"}[step > 1]))
	}
	o.O.Sample = map[string]any{"lines": qs(written), "fresh": c.Fresh, "file_bytes": len(data)}
	return o.O
}

func qs(ls []string) string {
	var out []string
	for _, l := range ls {
		out = append(out, q(clampStr(l, 40)))
	}
	return "[" + strings.Join(out, " ") + "]"
}

func tail(ls []string, n int) []string {
	if len(ls) > n {
		return ls[len(ls)-n:]
	}
	return ls
}

func firstDiff(a, b []string) int {
	for i := 0; i < len(a) && i < len(b); i++ {
		if a[i] != b[i] {
			return i
		}
	}
	if len(a) < len(b) {
		return len(a)
	}
	return len(b)
}

func init() {
	fw.Register(&fw.Prop{
		ID:    "C10",
		Level: "fault_enumeration",
		Rule: "sequences of 1-8 written lines (Unicode, quotes, backslashes, embedded newlines, C0 controls, U+2028, JSON look-alikes, blanks, consecutive duplicates; every 12th case with records of 4 KB-200 KB around the 64 KiB scanner limit, every 100th with one record of 1-3 MiB); (1) round trip through a reopened history; (2) for the last append, the file cut at EVERY byte offset of the record (sampled at ~1500 offsets for records > 4 KiB): reopen must succeed and return the completed entries, then a fresh entry appended through the API must be there after another reopen; at every fourth offset also: a second source opened on the file before the other writer's torn append writes the fresh entry. " +
			"distinct non-trivial = distinct (phase, entry count or record size class, enumeration mode) tuples; counters.crash_points = cut files checked",
		Assumptions: []string{"an append is a single write(2) with O_APPEND, so a crash leaves a byte prefix of the last record (file.go Write)", "blank lines and consecutive duplicates may be absent", "no fsync semantics are claimed (process death, not power loss)"},
		N: func(tier string) int {
			if tier == "thorough" {
				return 6000
			}
			return 400
		},
		Gen: c10Gen,
		Run: c10Run,
	})
}
