package props

import (
	"encoding/json"
	"fmt"
	"math/rand"
	"strings"

	"verif/fw"
	"verif/sess"
)

// C16: yank gives back exactly what kill took.

type c16Case struct {
	shellCfg
	Entry  int      `json:"entry"`  // which history entry is recalled
	Cursor int      `json:"cursor"` // cursor position (runes) before the kill
	Kills  []string `json:"kills"`  // kill commands by name (the last one is judged with the yank)
	NumArg string   `json:"numarg"`
	Region int      `json:"region"`          // for kill-region: the mark is set this many characters before
	Moves  []string `json:"moves,omitempty"` // long sequences: the motion between two kills
	// Emacs: after the yank, commands that change the buffer without killing, then a second yank
	Post []string `json:"post,omitempty"`
	// Emacs: the line is accepted after the kill and the yank is made in the next call of the
	// same Shell (the kill ring outlives the call)
	NextCall bool `json:"next_call,omitempty"`
}

var c16Buffers = []string{"echo hello world", "git commit -m 'x y'", "foo(bar[1]) {baz}", "a\nb\nc", "世界 wörld ok", "  padded  text  ", "one", "x", "if true; then\n  echo \"hi\"\nfi",
	"https://example.com/a?b=c&d=e", "a.b.c-d_e/f", "\"quoted string\" tail", "tab\there and there", "éà combining ́x", "word",
	"hello\nworld", "ab\ncd\nef", " 世", "ok 世界", "a,世", "echo wörld", "日本語 テスト", "x 'q界'", "w01 w02 w03 w04 w05 w06 w07 w08 w09 w10 w11 w12 w13 w14 w15 w16 w17 w18"}

var c16EmacsKills = []string{"kill-line", "backward-kill-line", "unix-line-discard", "kill-word", "backward-kill-word", "unix-word-rubout", "shell-kill-word", "shell-backward-kill-word", "kill-whole-line", "kill-region"}

const c16Probe = "\x18\x0b" // C-x C-k + index letter

func c16Gen(r *rand.Rand, tier string, idx int) any {
	c := c16Case{}
	c.W, c.H = 80, 24
	c.Inputrc = "set history-autosuggest off\n"
	if r.Intn(4) == 0 {
		c.Inputrc += "set blink-matching-paren on\n"
	}
	c.Hist = c16Buffers
	c.Entry = r.Intn(len(c16Buffers))
	n := len([]rune(c16Buffers[c.Entry]))
	// every cursor position of short buffers is reached over the case list
	c.Cursor = idx % (n + 1)
	if r.Intn(4) == 0 {
		c.Cursor = r.Intn(n + 1)
	}
	if r.Intn(4) == 0 {
		c.Mode = "vi"
		c.Kills = []string{"vi-delete"}
		switch r.Intn(4) {
		case 0:
		case 1:
			c.NumArg = fmt.Sprint(2 + r.Intn(4))
		default:
			// a count around the number of characters left on the cursor's line
			rs := []rune(c16Buffers[c.Entry])
			left := 0
			for i := c.Cursor; i < len(rs) && rs[i] != '\n'; i++ {
				left++
			}
			if k := left - 1 + r.Intn(4); k >= 2 {
				c.NumArg = fmt.Sprint(k)
			}
		}
		return c
	}
	if r.Intn(12) == 0 {
		// a long sequence of word kills in one call: more kills than the kill ring has slots
		c.Mode = "emacs"
		c.Entry = len(c16Buffers) - 1
		c.Cursor = 20 + r.Intn(30)
		for i, nk := 0, 11+r.Intn(5); i < nk; i++ {
			c.Kills = append(c.Kills, pick(r, []string{"kill-word", "backward-kill-word", "unix-word-rubout", "shell-kill-word", "shell-backward-kill-word"}))
			c.Moves = append(c.Moves, pick(r, []string{"\x02", "\x06", "\x1bf", "\x1bb"}))
		}
		return c
	}
	c.Mode = "emacs"
	nk := 1
	if r.Intn(4) == 0 {
		nk = 2 + r.Intn(2)
	}
	for i := 0; i < nk; i++ {
		c.Kills = append(c.Kills, pick(r, c16EmacsKills))
	}
	if r.Intn(4) == 0 {
		c.NumArg = pick(r, []string{"\x1b2", "\x1b3", "\x1b-", "\x1b-\x1b2"})
	}
	c.Region = 1 + r.Intn(6)
	if r.Intn(2) == 0 {
		c.Region = -c.Region // the point ends before the mark
	}
	if r.Intn(6) == 0 {
		c.NextCall = true
		return c
	}
	if r.Intn(3) == 0 {
		for i, n := 0, 1+r.Intn(3); i < n; i++ {
			c.Post = append(c.Post, pick(r, []string{"\x01", "\x05", "\x02", "\x1bb", "\x1bu", "\x1bl", "\x1bc", "\x14", "x", "\x7f", "\x04"}))
		}
	}
	return c
}

func c16Run(env *fw.Env, raw json.RawMessage) fw.Outcome {
	var c c16Case
	unmarshal(raw, &c)
	var o fw.Out
	cfg := c.cfg()
	var session *sess.Session
	cfg.Setup = func(s *sess.Session) {
		session = s
		for i, k := range c16EmacsKills {
			s.Sh.Config.Bind("emacs", c16Probe+string(rune('a'+i)), k, false)
		}
		s.Sh.Keymap.Register(map[string]func(){"verif-set-cursor": func() { s.Sh.Cursor().Set(c.Cursor) }})
		s.Sh.Config.Bind("vi-command", "\x18\x13", "verif-set-cursor", false)
	}
	s := sess.New(env.T, env.Scratch, cfg)
	defer s.Close()
	_ = session
	var plan []sess.Step
	add := func(w, tag string) { plan = append(plan, sess.Step{W: w, Tag: tag}) }
	buf := c16Buffers[c.Entry]
	nb := len([]rune(buf))
	// recall: entries are newest-last, entry e is reached with len-e "previous-history"
	ups := len(c16Buffers) - c.Entry
	probeIdx := func(name string) int {
		for i, k := range c16EmacsKills {
			if k == name {
				return i
			}
		}
		return 0
	}
	if c.Mode == "vi" {
		add("\x1b", "esc")
		for i := 0; i < ups; i++ {
			add("k", "recall")
		}
		add("\x18\x13", "move") // harness command: cursor to the planned position (any line of the buffer)
		if c.NumArg != "" {
			add(c.NumArg, "numarg")
		}
		add("x", "kill:vi-delete")
		add("P", "yank")
	} else {
		bind := s.Sh.Config.Bind
		bind("emacs", "\x18\x10", "previous-history", false)
		for i := 0; i < ups; i++ {
			add("\x18\x10", "recall")
		}
		bind("emacs", "\x18<", "beginning-of-buffer-or-history", false)
		// position the cursor: go to the very beginning (M-< is beginning-of-history): use C-b from the end
		for i := 0; i < nb-c.Cursor; i++ {
			add("\x02", "move")
		}
		for ki, k := range c.Kills {
			if k == "kill-region" {
				add("\x00", "set-mark")
				for i := 0; i < c.Region; i++ {
					add("\x06", "move")
				}
				for i := 0; i < -c.Region; i++ {
					add("\x02", "move")
				}
			}
			if ki == len(c.Kills)-1 && c.NumArg != "" {
				add(c.NumArg, "numarg")
			}
			add(c16Probe+string(rune('a'+probeIdx(k))), "kill:"+k)
			if ki < len(c.Kills)-1 {
				if ki < len(c.Moves) {
					add(c.Moves[ki], "move")
				} else {
					add(pick(rand.New(rand.NewSource(int64(ki+c.Cursor))), []string{"\x02", "\x06", "\x01", "\x05"}), "move")
				}
			}
		}
		if !c.NextCall {
			add("\x19", "yank")
		}
		for _, k := range c.Post {
			add(k, "post")
		}
		if len(c.Post) > 0 {
			add("\x19", "yank2")
		}
	}
	exit := steps("\x03", "\x03")
	if c.NextCall {
		exit = retExit
	}
	res := s.Call(plan, exit)
	ctx := fmt.Sprintf("mode=%s buffer=%q cursor=%d kills=%v numarg=%q region=%d yank-in-the-next-call=%v", c.Mode, buf, c.Cursor, c.Kills, c.NumArg, c.Region, c.NextCall)
	if !stdFailures(&o, res, ctx) {
		o.O.Sample = map[string]any{"ctx": ctx}
		return o.O
	}
	after := map[int]*sess.Snap{}
	for i := range res.Waits {
		w := &res.Waits[i]
		if w.Kind == "main" {
			after[w.Step-1] = w
		}
	}
	// judge every kill: the kill buffer holds exactly what was taken
	lastKill := -1
	for i, st := range plan {
		if !strings.HasPrefix(st.Tag, "kill:") {
			continue
		}
		lastKill = i
		b, ok1 := after[i-1]
		a, ok2 := after[i]
		if !ok1 || !ok2 {
			continue
		}
		cmd := strings.TrimPrefix(st.Tag, "kill:")
		o.O.Events++
		bufCls := contentClass(b.Line)
		if strings.Contains(b.Line, "\n") {
			bufCls += "+multiline"
		}
		curCls := "mid"
		switch {
		case b.Pos == 0:
			curCls = "start"
		case b.Pos >= len([]rune(b.Line)):
			curCls = "end"
		}
		argCls := "noarg"
		if c.NumArg != "" && i == lastKillIndex(plan) {
			argCls = "arg"
		}
		o.Cover(fmt.Sprintf("%s|%s|%s|%s", cmd, bufCls, curCls, argCls))
		if n := strings.Count(strings.Join(c.Kills[:min(len(c.Kills), 99)], ","), ",") + 1; n > 10 {
			o.Add("kills_judged_in_sequences_longer_than_the_kill_ring", 1)
		}
		L, L1, R := []rune(b.Line), []rune(a.Line), []rune(a.Kill)
		if string(L1) == string(L) {
			o.Add("kills_that_removed_nothing", 1)
			continue
		}
		// (1) exists i: L1[:i] + R + L1[i:] == L
		found := -1
		atCursor := false
		for p := 0; p <= len(L1); p++ {
			if string(L1[:p])+string(R)+string(L1[p:]) == string(L) {
				if found < 0 {
					found = p
				}
				if p == a.Pos {
					atCursor = true
				}
			}
		}
		if found < 0 {
			o.Viol("kill-buffer-is-not-what-was-removed|"+cmd+"|"+argCls, ctx+fmt.Sprintf(" before %q (pos %d), after %q (pos %d), kill buffer %q", b.Line, b.Pos, a.Line, a.Pos, a.Kill))
			continue
		}
		// (2) immediate yank at the same point restores the buffer
		if i+1 < len(plan) && plan[i+1].Tag == "yank" && atCursor {
			if y, ok := after[i+1]; ok {
				o.O.Events++
				o.Add("kill_yank_pairs_judged", 1)
				if y.Line != b.Line {
					sig := "yank-does-not-restore-what-kill-took|" + cmd + "|" + argCls
					o.Viol(sig, ctx+fmt.Sprintf(" before %q, after %s %q (kill buffer %q), after yank %q", b.Line, cmd, a.Line, a.Kill, y.Line))
				}
			}
		} else if i+1 < len(plan) && plan[i+1].Tag == "yank" {
			o.Add("yank_not_at_the_kill_point", 1)
			o.Add("yank_not_at_the_kill_point:"+cmd, 1)
		}
		// "Killing and then immediately yanking at the same point restores the buffer": an Emacs
		// kill command must leave the cursor where the text was taken (Vi x on the last
		// character moves left, as in vi: documented assumption).
		if c.Mode == "emacs" && !atCursor {
			o.Viol("kill-leaves-the-cursor-away-from-the-kill-point|"+cmd+"|"+argCls, ctx+fmt.Sprintf(" before %q (pos %d), after %s %q: the text %q was taken at position %d, the cursor is at %d", b.Line, b.Pos, cmd, a.Line, a.Kill, found, a.Pos))
		}
	}
	// after several kills, yank inserts the most recent one
	if lastKill >= 0 && len(c.Kills) > 1 {
		if a, ok := after[lastKill]; ok {
			if y, ok := after[lastKill+1]; ok && plan[lastKill+1].Tag == "yank" {
				if b, ok := after[lastKill-1]; ok && b.Line != a.Line {
					o.O.Events++
					if string([]rune(a.Line)[:a.Pos])+a.Kill+string([]rune(a.Line)[a.Pos:]) != y.Line {
						o.Viol("yank-after-several-kills-is-not-the-most-recent-one", ctx+fmt.Sprintf(" after the last kill %q (pos %d, kill buffer %q), after yank %q", a.Line, a.Pos, a.Kill, y.Line))
					}
				}
			}
		}
	}
	// the yank of the next call inserts what the last kill of this call took
	if c.NextCall && lastKill >= 0 && res.Returned && res.Err == "" {
		if a, ok := after[lastKill]; ok && a.Kill != "" {
			res2 := s.Call(steps("\x19"), steps("\x03", "\x03"))
			if stdFailures(&o, res2, ctx+" (next call)") {
				for i := range res2.Waits {
					w := &res2.Waits[i]
					if w.Kind == "main" && w.Step == 1 {
						o.O.Events++
						o.Add("yanks_in_the_call_after_the_kill", 1)
						if w.Line != a.Kill {
							o.Viol("yank-in-the-next-call-is-not-the-last-kill", ctx+fmt.Sprintf(": kill buffer after the last kill %q; the next call's yank on an empty line gave %q", a.Kill, w.Line))
						}
						break
					}
				}
			}
		}
	}
	// The kill ring keeps the text of the most recent kill while commands that do not kill run,
	// and a later yank still inserts it.
	if lastKill >= 0 && len(c.Post) > 0 {
		if a, ok := after[lastKill]; ok {
			R := a.Kill
			for i := lastKill + 1; i < len(plan); i++ {
				w, ok := after[i]
				if !ok {
					break
				}
				switch plan[i].Tag {
				case "post", "yank":
					o.O.Events++
					o.Add("kill_ring_checked_after_non_kill_commands", 1)
					if w.Kill != R {
						o.Viol("kill-ring-changed-by-a-command-that-does-not-kill|"+w.Cmd, ctx+fmt.Sprintf(" post=%q: after the last kill the kill buffer was %q; after %s (buffer %q) it is %q", c.Post, R, w.Cmd, w.Line, w.Kill))
						i = len(plan)
					}
				case "yank2":
					if pw, ok := after[i-1]; ok && R != "" {
						o.O.Events++
						pl := []rune(pw.Line)
						if pw.Pos <= len(pl) && w.Line != string(pl[:pw.Pos])+R+string(pl[pw.Pos:]) {
							o.Viol("later-yank-does-not-insert-the-most-recent-kill", ctx+fmt.Sprintf(" post=%q: kill buffer after the last kill %q; buffer %q (pos %d) became %q", c.Post, R, pw.Line, pw.Pos, w.Line))
						}
					}
				}
			}
		}
	}
	if env.Verbose {
		var tr []string
		for i := range plan {
			if w, ok := after[i]; ok {
				tr = append(tr, fmt.Sprintf("%d %s -> %q pos=%d kill=%q", i, plan[i].Tag, w.Line, w.Pos, w.Kill))
			}
		}
		o.O.Trace = tr
	}
	o.O.Sample = map[string]any{"ctx": ctx}
	return o.O
}

func lastKillIndex(plan []sess.Step) int {
	k := -1
	for i, st := range plan {
		if strings.HasPrefix(st.Tag, "kill:") {
			k = i
		}
	}
	return k
}

func init() {
	fw.Register(&fw.Prop{
		ID:        "C16",
		Level:     "exploration",
		NeedsTerm: true,
		Rule: "24 history-recalled buffers (six with a last word of multi-byte characters; punctuation, quotes, URLs, multi-line, multi-byte, tabs, blanks) x every cursor position (enumerated over the case list) x 10 Emacs kill commands bound by name (kill-line, backward-kill-line, unix-line-discard, kill-word, backward-kill-word, unix-word-rubout, shell-kill-word, shell-backward-kill-word, kill-whole-line, kill-region after set-mark + motion) with numeric arguments (none, 2, 3, -, -2), blink-matching-paren on in one case in four, sequences of 2-3 kills separated by motions, and Vi x with counts followed by P; oracle: if the kill changed the buffer, the kill buffer R satisfies L1[:i] + R + L1[i:] == L for some i, an Emacs kill leaves the cursor at such an i, and an immediate yank there restores L exactly; after several kills yank inserts the most recent one; one Emacs case in three goes on after the yank with 1-3 commands that move or change the buffer without killing (case-word commands, transpose, insert, delete-char) and a second yank: the kill buffer must stay what the last kill took and the second yank must insert it. " +
			"distinct non-trivial = distinct (kill command, buffer class, cursor class, argument class) tuples",
		Assumptions: []string{"Vi x on the last character moves the cursor left: P is then not at the same point and restoration is not demanded (as in vi)"},
		N: func(tier string) int {
			if tier == "thorough" {
				return 100000
			}
			return 4000
		},
		Gen: c16Gen,
		Run: c16Run,
	})
}
