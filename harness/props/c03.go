package props

import (
	"encoding/json"
	"fmt"
	"math/rand"
	"sort"
	"strings"

	"verif/fw"
	"verif/sess"
)

// C03: key sequences run exactly the command they are bound to.
// Probe commands are registered through the public API and bound to a generated table in an
// otherwise emptied keymap; the invocation log is compared with an independent longest-match
// reference dispatcher.

type c03Bind struct {
	Seq   string `json:"seq"`   // as stored in the table (runes; 0xE4 = Meta-d)
	Macro string `json:"macro"` // "" = probe command; otherwise the typed keys the macro stands for
}

type c03Case struct {
	shellCfg
	Keymap string    `json:"keymap"` // emacs | vi-insert | vi-command
	Binds  []c03Bind `json:"binds"`
	Chunks []string  `json:"chunks"` // typed bytes, as delivered
	Kinds  string    `json:"kinds"`  // segment kinds, for coverage
	// Warm: the Shell has already dispatched keys with another table in this keymap (a first
	// call); the table under test is then put in place through the API (Config.Bind and
	// deletions from Config.Binds), as an application changing binds between calls does
	Warm bool `json:"warm,omitempty"`
}

// (界: a key above U+00FF, typed as its three UTF-8 bytes; tables holding it run with convert-meta off)
var c03Alpha = []string{"a", "b", "c", "[", "\x1b", "\x18", "\x01", "ä", "界"}

// typed form of a stored sequence
func c03Typed(seq string) string { return keyBytes(seq) }

func c03GenSeq(r *rand.Rand, n int) string {
	var sb strings.Builder
	for i := 0; i < n; i++ {
		sb.WriteString(pick(r, c03Alpha))
	}
	return sb.String()
}

func c03Gen(r *rand.Rand, tier string, idx int) any {
	c := c03Case{}
	c.Keymap = pick(r, []string{"emacs", "emacs", "vi-insert", "vi-command"})
	c.Mode = "emacs"
	if c.Keymap != "emacs" {
		c.Mode = "vi"
	}
	c.W, c.H = 80, 24
	c.Inputrc = "set convert-meta " + pick(r, []string{"on", "off"}) + "\n"
	// table: 1..8 bindings, lengths 1..4, deliberate prefix overlap
	nb := 1 + r.Intn(8)
	seen := map[string]bool{"\r": true}
	for len(c.Binds) < nb {
		var s string
		if len(c.Binds) > 0 && r.Intn(2) == 0 {
			// extend or shorten an existing sequence: prefix overlap
			base := []rune(c.Binds[r.Intn(len(c.Binds))].Seq)
			if r.Intn(2) == 0 && len(base) < 4 {
				s = string(base) + c03GenSeq(r, 1+r.Intn(4-len(base)))
			} else if len(base) > 1 {
				s = string(base[:1+r.Intn(len(base)-1)])
			}
		}
		if s == "" {
			s = c03GenSeq(r, 1+r.Intn(4))
		}
		if seen[s] || strings.HasPrefix(c03Typed(s), "\r") {
			continue
		}
		// the typed forms must be distinct too (ESC d == Meta-d)
		dup := false
		for _, b := range c.Binds {
			if c03Typed(b.Seq) == c03Typed(s) {
				dup = true
			}
		}
		if dup {
			continue
		}
		seen[s] = true
		c.Binds = append(c.Binds, c03Bind{Seq: s})
	}
	for _, b := range c.Binds {
		if strings.Contains(b.Seq, "界") {
			c.Inputrc = "set convert-meta off\nset input-meta on\nset output-meta on\n"
		}
	}
	// 0..2 macros whose bodies are bound (non-macro) sequences
	nm := r.Intn(3)
	for i := 0; i < nm && len(c.Binds) > 1; i++ {
		j := r.Intn(len(c.Binds))
		if c.Binds[j].Macro != "" {
			continue
		}
		var bodies []string
		for k, b := range c.Binds {
			if k != j && b.Macro == "" {
				bodies = append(bodies, b.Seq)
			}
		}
		if len(bodies) == 0 {
			break
		}
		body := pick(r, bodies)
		if r.Intn(3) == 0 {
			body += pick(r, bodies)
		}
		c.Binds[j].Macro = body
		// a macro body must not trigger a macro itself (unbounded expansion is out of scope)
		if _, amb := c03Model(c.Binds, []string{c03Typed(body)}, false); amb != "" || c03TriggersMacro(c.Binds, body) {
			c.Binds[j].Macro = ""
		}
	}
	// no macro body may trigger another macro (checked again once all macros exist)
	for j := range c.Binds {
		if c.Binds[j].Macro != "" && c03TriggersMacro(c.Binds, c.Binds[j].Macro) {
			c.Binds[j].Macro = ""
		}
	}
	// input: segments
	outside := []string{"z", "q", "7", "-"}
	var segs, kinds []string
	ns := 1 + r.Intn(6)
	for i := 0; i < ns; i++ {
		b := c.Binds[r.Intn(len(c.Binds))]
		t := c03Typed(b.Seq)
		switch r.Intn(6) {
		case 0, 1, 2:
			segs = append(segs, t)
			kinds = append(kinds, "S")
		case 3:
			// proper prefix followed by a ruling-out key from outside the alphabet
			if len(t) > 1 {
				segs = append(segs, t[:1+r.Intn(len(t)-1)]+pick(r, outside))
				kinds = append(kinds, "P")
			}
		case 4:
			segs = append(segs, pick(r, outside))
			kinds = append(kinds, "G")
		case 5:
			// a bound sequence immediately followed by another one (the first key of the
			// second may be what rules a longer binding out)
			b2 := c.Binds[r.Intn(len(c.Binds))]
			segs = append(segs, t+c03Typed(b2.Seq))
			kinds = append(kinds, "SS")
		}
	}
	vi := c.Keymap != "emacs"
	for _, s := range segs {
		hasEsc := strings.Contains(s, "\x1b")
		switch {
		case vi && hasEsc:
			// lone ESC is told apart by timing in vi: keep the segment in one read
			c.Chunks = append(c.Chunks, s)
		case r.Intn(3) == 0:
			c.Chunks = append(c.Chunks, s)
		default:
			for i := 0; i < len(s); i++ {
				c.Chunks = append(c.Chunks, s[i:i+1])
			}
		}
	}
	c.Kinds = strings.Join(kinds, "")
	c.Warm = r.Intn(4) == 0
	return c
}

// c03TriggersMacro: typing body runs (or leaves pending) some macro binding.
func c03TriggersMacro(binds []c03Bind, body string) bool {
	t := c03Typed(body)
	for _, b := range binds {
		if b.Macro == "" {
			continue
		}
		bt := c03Typed(b.Seq)
		// any overlap between the body and a macro-bound sequence
		for i := 0; i < len(t); i++ {
			rest := t[i:]
			if strings.HasPrefix(rest, bt) || strings.HasPrefix(bt, rest) {
				return true
			}
		}
	}
	return false
}

type c03Inv struct {
	Bind int // index in the table
	Step int // number of chunks delivered when it ran (1-based chunk that triggered it)
}

// c03Model is the reference dispatcher. It returns the expected invocations and whether the
// input hits a situation the statement leaves open (then nothing is demanded).
func c03Model(binds []c03Bind, chunks []string, vi bool) (log []c03Inv, ambiguous string) {
	l, a, _ := c03ModelX(binds, chunks, vi)
	return l, a
}

// c03ModelX also reports whether a macro fired while typed keys were still buffered behind it
// (rest of the same read, or the ruling-out key that triggered it): the class of inputs on
// which the pinned code runs the buffered keys before the macro's keys.
func c03ModelX(binds []c03Bind, chunks []string, vi bool) (log []c03Inv, ambiguous string, overtake bool) {
	moreBuffered := false
	typed := make([]string, len(binds))
	starts := map[byte]bool{}
	for i, b := range binds {
		typed[i] = c03Typed(b.Seq)
		starts[typed[i][0]] = true
	}
	starts['\r'] = true
	exact := func(cur string) int {
		for i, t := range typed {
			if t == cur {
				return i
			}
		}
		return -1
	}
	longer := func(cur string) bool {
		for _, t := range typed {
			if len(t) > len(cur) && strings.HasPrefix(t, cur) {
				return true
			}
		}
		return false
	}
	var cur string
	rem, remLen := -1, 0
	depth := 0
	var feed func(k byte, step int)
	var fire func(i int, step int)
	fire = func(i int, step int) {
		if binds[i].Macro != "" {
			if moreBuffered {
				overtake = true
			}
			depth++
			if depth > 8 {
				ambiguous = "macro recursion"
				depth--
				return
			}
			if cur != "" {
				ambiguous = "macro fired with pending keys"
			}
			for _, k := range []byte(c03Typed(binds[i].Macro)) {
				feed(k, step)
			}
			if vi && strings.HasSuffix(c03Typed(binds[i].Macro), "\x1b") && cur != "" {
				ambiguous = "vi: macro keys end with ESC while a longer binding is possible"
			}
			depth--
			return
		}
		log = append(log, c03Inv{Bind: i, Step: step})
	}
	feeds := 0
	feed = func(k byte, step int) {
		feeds++
		if feeds > 10000 {
			ambiguous = "unbounded macro expansion"
			return
		}
		cur += string([]byte{k})
		e, l := exact(cur), longer(cur)
		switch {
		case e >= 0 && !l:
			cur, rem = "", -1
			fire(e, step)
		case l:
			if e >= 0 {
				rem, remLen = e, len(cur)
			}
		default:
			if rem >= 0 {
				between := cur[remLen : len(cur)-1]
				for i := 0; i < len(between); i++ {
					if starts[between[i]] {
						ambiguous = "keys between the shorter binding and the ruling-out key start a binding"
					}
				}
				r := rem
				cur, rem = "", -1
				saved := moreBuffered
				moreBuffered = true // the ruling-out key is waiting behind the binding that fires
				fire(r, step)
				moreBuffered = saved
				feed(k, step) // the ruling-out key is dispatched anew
			} else {
				for i := 1; i < len(cur); i++ {
					if starts[cur[i]] {
						ambiguous = "an unbound key string contains a key that starts a binding"
					}
				}
				cur = ""
			}
		}
	}
	for s, ch := range chunks {
		for bi, k := range []byte(ch) {
			moreBuffered = bi < len(ch)-1
			feed(k, s+1)
		}
		if vi && strings.HasSuffix(ch, "\x1b") && cur != "" {
			ambiguous = "vi: a read ends with ESC while a longer binding is possible (lone ESC is told apart by timing)"
		}
	}
	// the accept key (RET) that ends the session rules out anything still pending
	if cur != "" {
		if rem >= 0 {
			between := cur[remLen:]
			for i := 0; i < len(between); i++ {
				if starts[between[i]] {
					ambiguous = "keys between the shorter binding and the ruling-out key start a binding"
				}
			}
			log = append(log, c03Inv{Bind: rem, Step: len(chunks) + 1})
			if binds[rem].Macro != "" {
				ambiguous = "macro pending at the end"
			}
		}
	}
	return log, ambiguous, overtake
}

func c03Run(env *fw.Env, raw json.RawMessage) fw.Outcome {
	var c c03Case
	unmarshal(raw, &c)
	var o fw.Out
	var got []c03Inv
	var callers []string
	cfg := c.cfg()
	cfg.NoLadder = true
	cfg.Setup = func(s *sess.Session) {
		sh := s.Sh
		cmds := map[string]func(){}
		for i := range c.Binds {
			i := i
			cmds[fmt.Sprintf("probe-%d", i)] = func() {
				got = append(got, c03Inv{Bind: i, Step: s.StepsTaken()})
				callers = append(callers, string(sh.Keys.Caller()))
			}
		}
		sh.Keymap.Register(cmds)
		// empty the keymap under test, then fill it with the generated table
		km := sh.Config.Binds[c.Keymap]
		for k := range km {
			delete(km, k)
		}
		for i, b := range c.Binds {
			if c.Warm {
				// the earlier table: every other bind of the final one, the others one key longer
				if i%2 == 1 {
					sh.Config.Bind(c.Keymap, b.Seq+"z", fmt.Sprintf("probe-%d", i), false)
					continue
				}
			}
			if b.Macro != "" {
				sh.Config.Bind(c.Keymap, b.Seq, c03Typed(b.Macro), true)
			} else {
				sh.Config.Bind(c.Keymap, b.Seq, fmt.Sprintf("probe-%d", i), false)
			}
		}
		sh.Config.Bind(c.Keymap, "\r", "accept-line", false)
		sh.Keymap.SetMain(c.Keymap)
	}
	s := sess.New(env.T, env.Scratch, cfg)
	defer s.Close()
	if c.Warm {
		first := s.Call(steps("\r"), steps("\r", "\r", "\r"))
		if !stdFailures(&o, first, "warm-up call") || !first.Returned {
			o.Inc("the warm-up call did not return")
			return o.O
		}
		got, callers = nil, nil
		sh := s.Sh
		km := sh.Config.Binds[c.Keymap]
		for k := range km {
			delete(km, k)
		}
		for i, b := range c.Binds {
			if b.Macro != "" {
				sh.Config.Bind(c.Keymap, b.Seq, c03Typed(b.Macro), true)
			} else {
				sh.Config.Bind(c.Keymap, b.Seq, fmt.Sprintf("probe-%d", i), false)
			}
		}
		sh.Config.Bind(c.Keymap, "\r", "accept-line", false)
		sh.Keymap.SetMain(c.Keymap)
		o.Add("tables_put_in_place_through_the_API_after_a_first_call", 1)
	}
	res := s.Call(steps(c.Chunks...), steps("\r", "\r", "\r", "\r"))
	want, amb, overtake := c03ModelX(c.Binds, c.Chunks, c.Keymap != "emacs")
	o.O.Events = len(got) + len(res.Waits)
	overlap := 0
	for i, a := range c.Binds {
		for j, b := range c.Binds {
			if i != j && strings.HasPrefix(c03Typed(b.Seq), c03Typed(a.Seq)) {
				overlap++
			}
		}
	}
	shape := fmt.Sprintf("n%d-ov%d-m%d", len(c.Binds), overlap, func() int {
		n := 0
		for _, b := range c.Binds {
			if b.Macro != "" {
				n++
			}
		}
		return n
	}())
	if overlap > 0 {
		o.Cover(shape + "|" + c.Kinds + "|" + c.Keymap)
	}
	ctx := fmt.Sprintf("keymap=%s binds=%s chunks=%q", c.Keymap, c03Table(c.Binds), c.Chunks)
	if stdFailures(&o, res, ctx) {
		switch {
		case amb != "":
			o.Add("skipped_statement_leaves_open", 1)
		default:
			o.Add("judged", 1)
			ws, gs := c03Render(want, false), c03Render(got, false)
			if ws != gs {
				sig := "invocations-differ"
				switch {
				case overtake:
					sig = "macro-keys-run-after-keys-buffered-behind-the-macro-sequence"
				case len(got) < len(want) && isSubseqInv(got, want) && c03SwallowShape(c, want, got):
					sig = "ruling-out-key-not-redispatched"
				case len(got) < len(want) && isSubseqInv(got, want):
					sig = "missing-invocation"
				case len(got) > len(want) && isSubseqInv(want, got):
					sig = "extra-invocation"
				}
				o.Viol(sig+"|"+mainKind(c.Keymap), ctx+fmt.Sprintf(" expected=%s got=%s callers=%q", ws, gs, callers))
			} else if c03Render(want, true) != c03Render(got, true) && !overtake {
				o.Viol("invocation-at-wrong-key|"+mainKind(c.Keymap), ctx+fmt.Sprintf(" expected(bind@chunk)=%s got=%s", c03Render(want, true), c03Render(got, true)))
			}
			if !res.Returned {
				o.Viol("not-returned-after-accept|"+mainKind(c.Keymap), ctx+" Readline did not return after 4 RET")
			}
		}
	}
	if env.Verbose {
		o.O.Trace = map[string]any{"want": want, "got": got, "callers": callers, "ambiguous": amb, "res": res}
	}
	o.O.Sample = map[string]any{"keymap": c.Keymap, "binds": c03Table(c.Binds), "chunks": fmt.Sprintf("%q", c.Chunks), "expected": c03Render(want, true), "got": c03Render(got, true), "open": amb}
	return o.O
}

func mainKind(km string) string {
	if km == "emacs" {
		return "emacs"
	}
	return "vi"
}

// c03SwallowShape: the missing invocations are exactly those whose first key was the key that
// ruled a longer binding out (the defect class "ruling-out key swallowed").
func c03SwallowShape(c c03Case, want, got []c03Inv) bool {
	// conservative: true when the table has a binding that is a proper prefix of another
	for i, a := range c.Binds {
		for j, b := range c.Binds {
			if i != j && len(c03Typed(b.Seq)) > len(c03Typed(a.Seq)) && strings.HasPrefix(c03Typed(b.Seq), c03Typed(a.Seq)) {
				return true
			}
		}
	}
	return false
}

func isSubseqInv(a, b []c03Inv) bool {
	j := 0
	for _, x := range b {
		if j < len(a) && a[j].Bind == x.Bind {
			j++
		}
	}
	return j == len(a)
}

func c03Render(l []c03Inv, steps bool) string {
	var out []string
	for _, i := range l {
		if steps {
			out = append(out, fmt.Sprintf("%d@%d", i.Bind, i.Step))
		} else {
			out = append(out, fmt.Sprint(i.Bind))
		}
	}
	return "[" + strings.Join(out, " ") + "]"
}

func c03Table(b []c03Bind) string {
	var out []string
	for i, x := range b {
		if x.Macro != "" {
			out = append(out, fmt.Sprintf("%d:%q=>macro %q", i, c03Typed(x.Seq), c03Typed(x.Macro)))
		} else {
			out = append(out, fmt.Sprintf("%d:%q", i, c03Typed(x.Seq)))
		}
	}
	sort.Strings(out)
	return "{" + strings.Join(out, ", ") + "}"
}

func init() {
	fw.Register(&fw.Prop{
		ID:        "C03",
		Level:     "exploration",
		NeedsTerm: true,
		Rule: "generated bind tables (1-8 bindings of length 1-4 over {a b c [ ESC C-x C-a M-d}, deliberate prefix overlap, 0-2 macros) installed in an emptied main keymap (emacs, vi-insert, vi-command) with probe commands; inputs are concatenations of segments (bound sequence; proper prefix + ruling-out key; garbage; two bound sequences back to back), delivered per byte or per segment; one case in four has dispatched keys with an earlier table in a first call before the table under test is put in place through Config.Bind and deletions from Config.Binds; oracle = the probe invocation log (which binding, at which delivered chunk) equals an independent longest-match reference dispatcher. " +
			"Inputs the statement leaves open (left-over keys that themselves start a binding) are skipped and counted. distinct non-trivial = distinct (table shape, segment kinds, keymap) with >= 1 prefix overlap",
		Assumptions: []string{"in vi keymaps segments containing ESC are delivered in one read (lone ESC is told apart by timing)", "Meta-d bindings are typed as ESC d", "local keymaps (vi-opp, visual, menu-select) are exercised by C01/C14/C15/C17 workloads, not by this table oracle"},
		N: func(tier string) int {
			if tier == "thorough" {
				return 80000
			}
			return 4000
		},
		Gen: c03Gen,
		Run: c03Run,
	})
}
