package props

import (
	"encoding/json"
	"fmt"
	"math/rand"
	"sort"
	"strings"
	"unicode/utf8"

	"github.com/reeflective/readline"

	"verif/fw"
	"verif/sess"
)

type c02Case struct {
	// a second line typed ahead: "text RET text2 RET" arrives in one write while the first call
	// is waiting; what follows the first RET belongs to the next call
	Text2 string `json:"text2,omitempty"`
	Ahead bool   `json:"ahead,omitempty"`
	shellCfg
	Text     string `json:"text"`
	Delivery string `json:"delivery"` // whole | rune | byte | random
	Cuts     []int  `json:"cuts,omitempty"`
	Meta     string `json:"meta"`
	// configuration and application variety (one case in three): variables that document no edit,
	// a Completer, a SyntaxHighlighter, a right prompt, a history, an earlier call on the same Shell
	Vars   string `json:"vars,omitempty"`
	Comp   bool   `json:"comp,omitempty"`
	Hilite bool   `json:"hilite,omitempty"`
	Right  bool   `json:"right,omitempty"`
	Prior  string `json:"prior,omitempty"`
	HasPri bool   `json:"has_prior,omitempty"`
}

// variables whose documentation promises no change of the text being typed
var c02Vars = []string{"autocomplete", "history-autosuggest", "blink-matching-paren", "show-mode-in-prompt", "prompt-transient", "multiline-column", "multiline-column-numbered", "usage-hint-always", "enable-bracketed-paste", "skip-completed-text", "show-all-if-ambiguous", "search-ignore-case", "menu-complete-display-prefix", "completion-ignore-case", "history-preserve-point", "revert-all-at-newline", "isearch-trigger-external", "colored-stats", "mark-symlinked-directories", "bell-style"}

var runeClasses = map[string][]rune{
	"ascii":     []rune("abcdefghijklmnopqrstuvwxyzABCDEFGHIJKLMNOPQRSTUVWXYZ0123456789 !\"#$%&'()*+,-./:;<=>?@[\\]^_`{|}~"),
	"latin1":    []rune("¡¢£¤¥¦§¨©ª«¬®¯°±²³´µ¶·¸¹º»¼½¾¿ÀÁÂÃÄÅÆÇÈÉÊËÌÍÎÏÐÑÒÓÔÕÖ×ØÙÚÛÜÝÞßàáâãäåæçèéêëìíîïðñòóôõö÷øùúûüýþÿ"),
	"bmp":       []rune("ĀāĂăαβγδεζηθικλμνξοπабвгдежзийклмнאבגדהוזחטיمرحبا€‚ƒ„…†‡‰ŠŒŽ‘’“”•–—™š›œžŸ"),
	"wide":      []rune("世界你好日本語テスト한국어가나다라마漢字中文測試ＡＢＣ１２３"),
	"combining": []rune("̧́̀̈̃⃗"),
	"astral":    []rune("😀😁🙂🚀🎉𝔘𝔫𝔦𝐀𝐁𠀀𠀁🤖🧪"),
	// characters people type that Go's unicode.IsPrint rejects: ideographic and no-break spaces,
	// the joiners of emoji and Indic/Persian text, soft hyphen, private-use glyphs (powerline)
	"space-format-private": []rune("\u3000\u00a0\u202f\u2003\u200d\u200c\u00ad\ue0b0\uf8ff\U000f0001"),
}

var runeClassNames = []string{"ascii", "latin1", "bmp", "wide", "combining", "astral", "space-format-private"}

func genText(r *rand.Rand, classes []string, n int) string {
	var sb strings.Builder
	for i := 0; i < n; i++ {
		cl := pick(r, classes)
		if cl == "combining" && i == 0 {
			cl = "ascii"
		}
		sb.WriteRune(pick(r, runeClasses[cl]))
	}
	return sb.String()
}

func c02Gen(r *rand.Rand, tier string, idx int) any {
	c := c02Case{}
	c.Mode = pick(r, []string{"emacs", "vi"})
	c.W, c.H = 20+r.Intn(100), 10+r.Intn(30)
	n := r.Intn(41)
	if r.Intn(25) == 0 {
		n = 200 + r.Intn(600)
	}
	if r.Intn(40) == 0 {
		n = 400 + r.Intn(700) // with multi-byte classes: 1-3 KiB
	}
	asciiOnly := r.Intn(3) == 0
	if asciiOnly {
		c.Text = genText(r, []string{"ascii"}, n)
		// ASCII must come back under every meta setting
		cm, im, om := pick(r, []string{"on", "off"}), pick(r, []string{"on", "off"}), pick(r, []string{"on", "off"})
		c.Meta = "convert-meta " + cm + " input-meta " + im + " output-meta " + om
		c.Inputrc = fmt.Sprintf("set convert-meta %s\nset input-meta %s\nset output-meta %s\n", cm, im, om)
	} else {
		k := 1 + r.Intn(4)
		var cls []string
		for i := 0; i < k; i++ {
			cls = append(cls, pick(r, runeClassNames))
		}
		c.Text = genText(r, cls, n)
		// the usual UTF-8 settings named by the statement
		c.Meta = "utf8"
		c.Inputrc = "set convert-meta off\nset input-meta on\nset output-meta on\n"
	}
	c.Inputrc += "set autopairs off\n"
	if len(c.Text) < 300 && r.Intn(3) == 0 {
		for _, v := range c02Vars {
			if r.Intn(3) == 0 {
				val := pick(r, []string{"on", "off"})
				if v == "bell-style" {
					val = pick(r, []string{"none", "audible", "visible"})
				}
				c.Vars += "set " + v + " " + val + "\n"
			}
		}
		c.Inputrc += c.Vars
		c.Comp, c.Hilite, c.Right = r.Intn(2) == 0, r.Intn(3) == 0, r.Intn(4) == 0
		c.Hist = genHist(r, 5)
		if r.Intn(3) == 0 {
			// entries the typed text is a prefix of, or that it extends (autosuggestion material)
			if rs := []rune(c.Text); len(rs) > 1 {
				c.Hist = append(c.Hist, string(rs[:len(rs)/2]), c.Text+" and more")
			}
		}
		if r.Intn(3) == 0 {
			c.HasPri = true
			pc := []string{"ascii"}
			if !asciiOnly {
				pc = append(pc, pick(r, runeClassNames))
			}
			c.Prior = genText(r, pc, r.Intn(20))
		}
	}
	if len(c.Text) < 300 && r.Intn(8) == 0 {
		c.Ahead = true
		cls := []string{"ascii"}
		if !asciiOnly {
			cls = []string{pick(r, runeClassNames), "ascii"}
		}
		c.Text2 = genText(r, cls, r.Intn(30))
	}
	c.Delivery = pick(r, []string{"whole", "rune", "byte", "random"})
	if len(c.Text) > 250 && c.Delivery != "whole" {
		c.Delivery = "random"
	}
	if len(c.Text) > 1100 && c.Delivery == "random" {
		c.Delivery = "whole" // (thousands of reads with a redisplay each: too slow for what it adds)
	}
	if len(c.Text) > 1100 && len(c.Text) < 3500 && r.Intn(2) == 0 {
		// a paste longer than the library's 1024-byte read buffer, in one write: the reads cut
		// it wherever the buffer ends, and the cursor query of the next redisplay reads the rest
		c.Delivery = "paste"
	}
	if c.Delivery == "random" {
		for i := 1; i < len(c.Text); i++ {
			if r.Intn(6) == 0 {
				c.Cuts = append(c.Cuts, i)
			}
		}
	}
	return c
}

// chunk cuts text into delivery chunks; every chunk is at most 250 bytes.
func chunk(text, delivery string, cuts []int) []string {
	var out []string
	add := func(s string) {
		for len(s) > 250 {
			out = append(out, s[:250])
			s = s[250:]
		}
		if s != "" {
			out = append(out, s)
		}
	}
	switch delivery {
	case "rune":
		for _, r := range text {
			add(string(r))
		}
	case "byte":
		for i := 0; i < len(text); i++ {
			add(text[i : i+1])
		}
	case "random":
		prev := 0
		for _, c := range cuts {
			if c > prev && c < len(text) {
				add(text[prev:c])
				prev = c
			}
		}
		add(text[prev:])
	case "paste":
		out = append(out, text)
	default:
		add(text)
	}
	return out
}

func classOf(r rune) string {
	for _, x := range runeClasses["space-format-private"] {
		if x == r {
			return "space-format-private"
		}
	}
	switch {
	case r < 0x80:
		return "ascii"
	case r <= 0xff:
		return "latin1"
	case r > 0xffff:
		return "astral"
	}
	for _, n := range []string{"wide", "combining", "space-format-private"} {
		for _, x := range runeClasses[n] {
			if x == r {
				return n
			}
		}
	}
	return "bmp"
}

// diffClass computes the signature class of a fidelity failure.
func diffClass(typed, got string) string {
	onlyASCII := func(s string) string {
		var sb strings.Builder
		for _, r := range s {
			if r < 0x80 {
				sb.WriteRune(r)
			}
		}
		return sb.String()
	}
	tr, gr := []rune(typed), []rune(got)
	switch {
	case got == onlyASCII(typed) && got != typed:
		return "dropped-all-non-ascii"
	case isSubseq(gr, tr) && len(gr) < len(tr):
		// which classes were dropped
		drop := map[string]bool{}
		j := 0
		for _, r := range tr {
			if j < len(gr) && gr[j] == r {
				j++
			} else {
				drop[classOf(r)] = true
			}
		}
		var ks []string
		for k := range drop {
			ks = append(ks, k)
		}
		sort.Strings(ks)
		return "dropped:" + strings.Join(ks, "+")
	case isSubseq(tr, gr) && len(gr) > len(tr):
		return "duplicated-or-inserted"
	case sameMultiset(tr, gr):
		return "reordered"
	default:
		return "replaced"
	}
}

func isSubseq(a, b []rune) bool {
	j := 0
	for _, r := range b {
		if j < len(a) && a[j] == r {
			j++
		}
	}
	return j == len(a)
}

func sameMultiset(a, b []rune) bool {
	if len(a) != len(b) {
		return false
	}
	m := map[rune]int{}
	for _, r := range a {
		m[r]++
	}
	for _, r := range b {
		m[r]--
	}
	for _, v := range m {
		if v != 0 {
			return false
		}
	}
	return true
}

func c02Run(env *fw.Env, raw json.RawMessage) fw.Outcome {
	var c c02Case
	unmarshal(raw, &c)
	var o fw.Out
	cfg := c.cfg()
	cfg.Setup = func(s *sess.Session) {
		if c.Comp {
			// offers extensions of the word under the cursor, as a shell's completer does
			s.Sh.Completer = func(line []rune, cursor int) readline.Completions {
				w := string(line[:cursor])
				if i := strings.LastIndexAny(w, " \t"); i >= 0 {
					w = w[i+1:]
				}
				return readline.CompleteValues(w+"a", w+"bc", w, "other")
			}
		}
		if c.Hilite {
			s.Sh.SyntaxHighlighter = func(line []rune) string {
				var sb strings.Builder
				for i, w := range strings.SplitAfter(string(line), " ") {
					if i%2 == 0 {
						sb.WriteString("\x1b[32m" + w + "\x1b[0m")
					} else {
						sb.WriteString(w)
					}
				}
				return sb.String()
			}
		}
		if c.Right {
			s.Sh.Prompt.Right(func() string { return "[r]" })
		}
	}
	s := sess.New(env.T, env.Scratch, cfg)
	defer s.Close()
	if c.Ahead {
		c02TypeAhead(env, &c, s, &o)
		return o.O
	}
	if c.HasPri {
		// an earlier call on the same Shell: its line is accepted and becomes a history entry
		if r0 := s.Call(steps(chunk(c.Prior, "whole", nil)...), retExit); !stdFailures(&o, r0, "earlier call typed="+q(c.Prior)) {
			return o.O
		} else if !r0.Returned || r0.Err != "" || r0.Line != c.Prior {
			o.Viol(diffClass(c.Prior, r0.Line)+"|"+c.Mode+"|configured", fmt.Sprintf("mode=%s vars=%q earlier call typed=%s returned=%s err=%q", c.Mode, c.Vars, q(c.Prior), q(r0.Line), r0.Err))
			return o.O
		}
	}
	plan := steps(chunk(c.Text, c.Delivery, c.Cuts)...)
	res := s.Call(plan, retExit)
	o.O.Events = 1
	if c.Vars != "" || c.Comp || c.Hilite || c.Right || c.HasPri {
		o.Add("cases_with_configuration_or_application_variety", 1)
		for _, l := range strings.Split(strings.TrimSpace(c.Vars), "\n") {
			if l != "" {
				o.Set("variables_set", strings.TrimPrefix(l, "set "))
			}
		}
	}
	classes := map[string]bool{}
	for _, r := range c.Text {
		classes[classOf(r)] = true
	}
	var ks []string
	for k := range classes {
		ks = append(ks, k)
	}
	sort.Strings(ks)
	o.Cover(strings.Join(ks, "+") + "|" + c.Mode + "|" + c.Meta + "|" + c.Delivery + fmt.Sprintf("|len%d", utf8.RuneCountInString(c.Text)/10))
	o.Add("reads_realised", len(res.Reads))
	ctx := fmt.Sprintf("mode=%s meta=%q delivery=%s typed=%s", c.Mode, c.Meta, c.Delivery, q(clampStr(c.Text, 80)))
	cfgTag := ""
	if c.Vars != "" || c.Comp || c.Hilite || c.Right || c.HasPri {
		cfgTag = "|configured"
		ctx += fmt.Sprintf(" vars=%q completer=%v highlighter=%v right-prompt=%v earlier-call=%v hist=%q", c.Vars, c.Comp, c.Hilite, c.Right, c.HasPri, c.Hist)
	}
	if stdFailures(&o, res, ctx) {
		switch {
		case !res.Returned:
			o.Viol("not-returned-after-RET", ctx+" Readline did not return after the accept key")
		case res.Err != "":
			o.Viol("error-returned:"+res.Err, ctx+" err="+res.Err)
		case res.Line != c.Text:
			o.Viol(diffClass(c.Text, res.Line)+"|"+c.Mode+cfgTag, ctx+" returned="+q(clampStr(res.Line, 120)))
		}
	}
	if env.Verbose {
		o.O.Trace = res
	}
	o.O.Sample = map[string]any{"mode": c.Mode, "meta": c.Meta, "delivery": c.Delivery, "typed": clampStr(c.Text, 60), "returned": clampStr(res.Line, 60), "chunks": len(plan)}
	return o.O
}

// c02TypeAhead: two lines in one write. The first call must return the first line, the next
// call on the same Shell the second one, without anything else being typed.
func c02TypeAhead(env *fw.Env, c *c02Case, s *sess.Session, o *fw.Out) {
	ctx := fmt.Sprintf("mode=%s meta=%q two lines in one write: %s RET %s RET", c.Mode, c.Meta, q(clampStr(c.Text, 60)), q(clampStr(c.Text2, 60)))
	res1 := s.Call(steps(c.Text+"\r"+c.Text2+"\r"), retExit)
	o.O.Events = 2
	o.Cover("type-ahead-across-accept|" + c.Mode + "|" + c.Meta)
	if !stdFailures(o, res1, ctx+" (first call)") {
		return
	}
	if !res1.Returned || res1.Err != "" || res1.Line != c.Text {
		o.Viol("type-ahead|first-line-wrong|"+c.Mode, ctx+fmt.Sprintf(": the first call returned (%s, %q)", q(clampStr(res1.Line, 80)), res1.Err))
		return
	}
	// nothing is typed for the second call before its line is complete: the exit key is only
	// delivered if the library comes to read the terminal, i.e. if it lost the type-ahead
	res2 := s.Call(nil, retExit)
	if !stdFailures(o, res2, ctx+" (second call)") {
		return
	}
	if !res2.Returned || res2.Err != "" || res2.Line != c.Text2 {
		o.Viol("type-ahead|second-line-"+diffClass(c.Text2, res2.Line)+"|"+c.Mode, ctx+fmt.Sprintf(": the second call returned (%s, %q)", q(clampStr(res2.Line, 80)), res2.Err))
	}
}

func init() {
	fw.Register(&fw.Prop{
		ID:        "C02",
		Level:     "exploration",
		NeedsTerm: true,
		Rule: "strings of 0-40 (some 200-800) printable runes over {ASCII, Latin-1, BMP letters, CJK/Hangul wide, combining marks, astral} x {emacs, vi-insert}; ASCII-only strings under all 8 convert-meta/input-meta/output-meta settings, non-ASCII under convert-meta off/input-meta on/output-meta on; delivered whole, per rune, per byte (mid-UTF-8 cuts) at random cuts, or as one write of 1-3 KiB; one case in eight types two lines in one write (text RET text2 RET) while the first call waits: the first call must return the first line and the next call on the same Shell the second one with nothing else typed; oracle = identity with the returned line. " +
			"distinct non-trivial = distinct (rune-class set, mode, meta setting, delivery, length decile) tuples",
		Assumptions: []string{"autopairs off (pair insertion is a documented edit)", "accepted with RET"},
		N: func(tier string) int {
			if tier == "thorough" {
				return 60000
			}
			return 4000
		},
		Gen: c02Gen,
		Run: c02Run,
	})
}
