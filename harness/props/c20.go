package props

import (
	"encoding/json"
	"fmt"
	"math/rand"
	"strings"
	"sync"
	"sync/atomic"
	"time"

	"github.com/reeflective/readline"

	"verif/fw"
	"verif/sess"
)

// C20: resizes and async prints never break an edit in progress.
// Runs with the race-detector build (see ./check). Disturbances are fired at logical trigger
// points: (t1) while the main loop is parked at an input wait, with or without letting the
// disturbance settle before the next keys; (t2) while the main loop is inside a redisplay, i.e.
// between its cursor-position query and the terminal's answer, which the emulator holds until
// the disturber has issued its own query (answers then go out in either order or in one write);
// plus bursts of 2-20 SIGWINCH back to back.

type c20Dist struct {
	Trig   string `json:"trig"`   // t1 | t2
	At     int    `json:"at"`     // t1: before delivering script token At; t2: at main's At-th cursor query
	Kind   string `json:"kind"`   // winch | printf | burst
	N      int    `json:"n"`      // burst size
	Settle bool   `json:"settle"` // t1: let the disturbance finish before the next keys
	Order  string `json:"order"`  // t2: main-first | other-first | one-write
	// settled t1: the next keys are typed at the very moment of the disturbance and reach the
	// main loop in the same read as the terminal's answer to the disturber's query, in front of
	// it ("before") or behind it ("after")
	TA string `json:"ta,omitempty"`
	// printf: which application call (Printf below the input, PrintTransientf in its place) and
	// which text (0 short, 1 two lines, 2 longer than the terminal is wide, 3 empty)
	Transient bool `json:"transient,omitempty"`
	Msg       int  `json:"msg,omitempty"`
}

type c20Case struct {
	shellCfg
	Tokens []string  `json:"tokens"`
	Dists  []c20Dist `json:"dists"`
	// Comp: the application has a Completer; the script displays its candidates (a one-row or
	// a several-row list) with possible-completions, and the terminal then becomes much narrower
	Comp int `json:"comp,omitempty"`
}

var c20Cands = [][]string{nil,
	{"alpha", "alphabet", "alpine", "altitude", "amber", "amulet", "anchor", "animal"},
	{"alpha", "alphabet", "alpine", "altitude", "amber", "amulet", "anchor", "animal", "another", "antenna", "anvil", "apple", "apricot", "arrow", "artist", "aspen", "atlas", "atom", "aunt", "autumn", "avenue", "award", "axis", "azure"},
}

var c20Tokens = []string{"hello", " ", "world", "x", "\x01", "\x05", "\x02", "\x06", "\x1bb", "\x1bf", "\x0b", "\x19", "\x7f", "foo bar", "\x14", "-", "\x10", "\x0e"}

// commands that read an argument key: command and argument are two tokens, so that a
// disturbance can be fired while the command waits for its argument
var c20ArgCmds = [][2]string{{"\x11", "a"}, {"\x16", "b"}, {"\x1d", "o"}, {"\x1b\x1d", "l"}}

func c20Gen(r *rand.Rand, tier string, idx int) any {
	c := c20Case{}
	c.Mode = "emacs"
	c.W, c.H = 60+r.Intn(40), 20+r.Intn(10)
	c.Inputrc = "set history-autosuggest off\n"
	c.Hist = []string{"echo one", "ls -la two"}
	if idx%16 == 8 {
		// a displayed completion list and a resize at an input wait, run to its end
		c.Comp = 1 + r.Intn(2)
		c.W = 76 + r.Intn(20)
		c.Tokens = []string{"a", "\x1b=", pick(r, []string{"l", "x", " ", "\x06"})}
		if r.Intn(2) == 0 {
			c.Tokens = append(c.Tokens, pick(r, c20Tokens))
		}
		c.Dists = []c20Dist{{Trig: "t1", At: 2 + r.Intn(2), Kind: "winch", Settle: true}}
		return c
	}
	n := 3 + r.Intn(8)
	var argAt []int
	for len(c.Tokens) < n {
		if r.Intn(6) == 0 {
			ac := pick(r, c20ArgCmds)
			c.Tokens = append(c.Tokens, ac[0], ac[1])
			argAt = append(argAt, len(c.Tokens)-1)
			continue
		}
		c.Tokens = append(c.Tokens, pick(r, c20Tokens))
	}
	n = len(c.Tokens)
	// Half of the cases have a clean schedule: every disturbance is fired while the main loop
	// is parked in its terminal read and runs to its end before the next key is typed.
	clean := idx%2 == 0
	nd := 1 + r.Intn(3)
	for i := 0; i < nd; i++ {
		d := c20Dist{}
		d.Trig = pick(r, []string{"t1", "t1", "t1", "t2"})
		d.Kind = pick(r, []string{"winch", "winch", "printf", "burst"})
		if d.Trig == "t2" && d.Kind == "burst" {
			d.Kind = "winch"
		}
		d.N = 2 + r.Intn(19)
		d.Settle = r.Intn(4) != 0
		d.Order = pick(r, []string{"main-first", "other-first", "one-write"})
		if clean {
			d.Trig, d.Settle = "t1", true
			d.Kind = pick(r, []string{"winch", "printf"})
			d.TA = pick(r, []string{"", "", "before", "after"})
		}
		if d.Kind == "printf" && r.Intn(2) == 0 {
			d.Transient = r.Intn(2) == 0
			d.Msg = r.Intn(4)
		}
		if d.Trig == "t1" {
			d.At = r.Intn(n + 1)
			if len(argAt) > 0 && r.Intn(2) == 0 {
				d.At = pick(r, argAt) // between a command and its argument key
			}
		} else {
			d.At = 2 + r.Intn(n)
		}
		c.Dists = append(c.Dists, d)
	}
	return c
}

// c20Clean: the schedule has only settled single disturbances at input waits.
func c20Clean(c *c20Case) bool {
	for _, d := range c.Dists {
		if d.Trig != "t1" || !d.Settle || d.Kind == "burst" {
			return false
		}
	}
	return true
}

// kindName: the disturbance kind as it shows in evidence tuples.
func (d c20Dist) kindName() string {
	if d.Kind != "printf" {
		return d.Kind
	}
	n := "printf"
	if d.Transient {
		n = "printtransientf"
	}
	return n + []string{"", "-two-lines", "-wider-than-the-terminal", "-empty"}[d.Msg%4]
}

type c20Run struct {
	line, err string
	returned  bool
	res       *sess.Result
	realised  []string
	async     []string // disturbers found blocked for good: "frames" signatures
	unsettled int      // settle waits that ended without confirmation
	hungPrint int      // Shell.Printf calls that never returned
	dump      string
	leftover  bool // resize / Printf goroutines of the session still exist after it
}

func c20Session(env *fw.Env, c *c20Case, disturb bool) *c20Run {
	cfg := c.cfg()
	cfg.Screen = true
	cfg.NoLadder = true
	out := &c20Run{}
	var wg sync.WaitGroup
	var mu sync.Mutex
	sizes := [][2]int{{c.W - 7, c.H - 2}, {c.W, c.H}, {c.W + 9, c.H + 1}, {c.W - 3, c.H}}
	if c.Comp > 0 {
		sizes = [][2]int{{c.W * 2 / 5, c.H}, {c.W, c.H}}
		cands := c20Cands[c.Comp]
		cfg.Setup = func(s *sess.Session) {
			s.Sh.Completer = func(line []rune, cursor int) readline.Completions {
				return readline.CompleteValues(cands...)
			}
		}
	}
	sizeIdx := 0
	msgs := 0
	var printfActive int64
	var fireMu sync.Mutex
	fire := func(s *sess.Session, d c20Dist) {
		fireMu.Lock()
		defer fireMu.Unlock()
		switch d.Kind {
		case "winch":
			sz := sizes[sizeIdx%len(sizes)]
			sizeIdx++
			env.T.Resize(sz[0], sz[1], true)
		case "burst":
			for i := 0; i < d.N; i++ {
				sz := sizes[sizeIdx%len(sizes)]
				sizeIdx++
				env.T.Resize(sz[0], sz[1], true)
			}
		case "printf":
			msgs++
			k := msgs
			wg.Add(1)
			atomic.AddInt64(&printfActive, 1)
			go func() {
				defer wg.Done()
				defer atomic.AddInt64(&printfActive, -1)
				format := []string{"async message %d", "first line %d\nsecond line", "a long message %d " + strings.Repeat("that goes on and on ", 8), "%.0d"}[d.Msg%4]
				if d.Transient {
					s.Sh.PrintTransientf(format, k)
				} else {
					s.Sh.Printf(format, k)
				}
			}()
		}
	}
	// blockedFor returns the signature of disturber goroutines that sit, in two dumps taken
	// apart, at the same blocking operation inside the cursor-position query.
	// goroutines left over from earlier sessions of this worker process are not this session's
	stale := map[string]bool{}
	gid := func(g string) string { return strings.SplitN(g, " [", 2)[0] }
	for _, marker := range []string{"display.WatchResize.func1", "(*Shell).Printf", "(*Shell).PrintTransientf"} {
		for _, g := range sess.Stanzas(sess.AllStacks(), marker) {
			stale[gid(g)] = true
		}
	}
	blockedFor := func() string {
		sigOf := func(dump string) []string {
			var out []string
			for _, marker := range []string{"display.WatchResize.func1", "(*Shell).Printf", "(*Shell).PrintTransientf"} {
				for _, g := range sess.Stanzas(dump, marker) {
					if !strings.Contains(g, "core.(*Keys).GetCursorPos") || stale[gid(g)] {
						continue
					}
					st, fr := sess.BlockState(g)
					switch st {
					case "IO wait", "syscall", "chan receive", "chan send", "select", "sync.Mutex.Lock", "sync.RWMutex.Lock", "sync.RWMutex.RLock", "semacquire":
						var lib []string
						for _, f := range fr {
							if strings.Contains(f, "reeflective/readline") {
								f = f[strings.LastIndex(f, "/")+1:]
								lib = append(lib, f)
							}
							if len(lib) == 3 {
								break
							}
						}
						out = append(out, st+"@"+strings.Join(lib, "<"))
					}
				}
			}
			sortStrings(out)
			return out
		}
		d1 := sigOf(sess.AllStacks())
		if len(d1) == 0 {
			return ""
		}
		time.Sleep(300 * time.Millisecond)
		dump := sess.AllStacks()
		d2 := sigOf(dump)
		if strings.Join(d1, ";") != strings.Join(d2, ";") {
			return ""
		}
		mu.Lock()
		out.dump = dump
		mu.Unlock()
		return d1[0]
	}
	resizeBusy := func() bool {
		for _, g := range sess.Stanzas(sess.AllStacks(), "display.WatchResize.func1") {
			if stale[gid(g)] {
				continue
			}
			if strings.Contains(g, "display.(*Engine).Refresh") || strings.Contains(g, "GenerateCached") {
				return true
			}
		}
		return false
	}
	// settle: the disturbance has run to its end (plumbing polls; the verdicts are logical:
	// goroutine finished / parked again, or blocked at the same place in two dumps)
	settle := func(d c20Dist, dsr0 int) {
		for k := 0; k < 1000; k++ {
			time.Sleep(2 * time.Millisecond)
			if dsrCount(env.T) == dsr0 {
				continue // the disturber has not redisplayed yet
			}
			done := false
			if d.Kind == "printf" {
				done = atomic.LoadInt64(&printfActive) == 0
			} else {
				done = !resizeBusy()
			}
			if done {
				return
			}
		}
		if b := blockedFor(); b != "" {
			mu.Lock()
			out.async = append(out.async, b)
			mu.Unlock()
			return
		}
		mu.Lock()
		out.unsettled++
		mu.Unlock()
	}
	cfg.Actions = map[string]func(s *sess.Session, arg string){
		// unsettled disturbances: fired from the gate, the next keys follow at once
		"dist": func(s *sess.Session, arg string) {
			var i int
			fmt.Sscan(arg, &i)
			d := c.Dists[i]
			fire(s, d)
			mu.Lock()
			out.realised = append(out.realised, fmt.Sprintf("t1|%s|settle=false", d.kindName()))
			mu.Unlock()
		},
		// settled disturbances: the gate delivers nothing, the main loop goes to its terminal
		// read; a helper fires the disturbances one after the other, lets each run to its end,
		// then types the next keys itself
		"settled": func(s *sess.Session, arg string) {
			s.Hold()
			kind := "main"
			if w := s.LastWaitKind(); w != "" {
				kind = w
			}
			wg.Add(1)
			go func() {
				defer wg.Done()
				group := strings.Split(arg, ",")
				delivered := false
				for _, f := range group {
					var i int
					fmt.Sscan(f, &i)
					d := c.Dists[i]
					if len(group) > 1 {
						d.TA = "" // keys with the answer only for a disturbance that is alone at its wait
					}
					// the main loop must be inside its read before the disturbance starts
					for k := 0; k < 500 && !s.InRead(); k++ {
						time.Sleep(time.Millisecond)
					}
					dsr0 := dsrCount(env.T)
					ta := ""
					if d.TA != "" {
						order := d.TA
						env.T.Lock()
						env.T.DSRHook = func(n int, reply []byte) bool {
							env.T.DSRHook = nil
							sts := s.TakeSteps(1)
							if len(sts) == 0 {
								return false
							}
							ta = "|keys-" + order + "-the-answer"
							delivered = true
							if order == "before" {
								env.T.M.Write(append([]byte(sts[0].W), reply...))
							} else {
								env.T.M.Write(append(append([]byte{}, reply...), sts[0].W...))
							}
							return true
						}
						env.T.Unlock()
					}
					fire(s, d)
					settle(d, dsr0)
					env.T.Lock()
					env.T.DSRHook = nil
					tag := ta
					env.T.Unlock()
					mu.Lock()
					out.realised = append(out.realised, fmt.Sprintf("t1|%s|settled|%s-wait%s", d.kindName(), kind, tag))
					mu.Unlock()
				}
				if delivered {
					// the keys typed with the answer are being used: wait until the main loop is
					// back in its read before the next ones are typed
					for k := 0; k < 2000 && !(s.InRead() && s.Idle()); k++ {
						time.Sleep(time.Millisecond)
					}
				}
				for _, st := range s.TakeSteps(1) {
					env.T.M.Write([]byte(st.W))
				}
				s.Release()
			}()
		},
	}
	s := sess.New(env.T, env.Scratch, cfg)
	defer s.Close()
	var plan []sess.Step
	t1 := map[int][]int{}
	t2 := map[int]int{}
	if disturb {
		for i, d := range c.Dists {
			if d.Trig == "t1" {
				t1[d.At] = append(t1[d.At], i)
			} else {
				t2[d.At] = i
			}
		}
	}
	distStep := func(ds []int) []sess.Step {
		var settled []string
		var out []sess.Step
		for _, i := range ds {
			if c.Dists[i].Settle && c.Dists[i].Kind != "burst" {
				settled = append(settled, fmt.Sprint(i))
			} else if len(out) == 0 {
				out = append(out, sess.Step{Do: "dist", Arg: fmt.Sprint(i), Tag: "dist"})
			}
		}
		if len(settled) > 0 {
			return []sess.Step{{Do: "settled", Arg: strings.Join(settled, ","), Tag: "dist"}}
		}
		return out
	}
	for i, ds := range t1 {
		if len(t1[i+1]) > 0 || i >= len(c.Tokens) {
			for _, di := range ds {
				c.Dists[di].TA = "" // the keys typed with the answer must be followed by plain keys
			}
		}
	}
	for i, tok := range c.Tokens {
		st := sess.Step{W: tok, Tag: "tok"}
		if ds := distStep(t1[i]); len(ds) > 0 {
			if ds[0].Do == "dist" {
				st.Do, st.Arg = ds[0].Do, ds[0].Arg
			} else {
				plan = append(plan, ds[0])
			}
		}
		plan = append(plan, st)
	}
	// after the script: one harmless key pair forces a redisplay once disturbances are over
	fin := sess.Step{W: "\x01", Tag: "final-redisplay"}
	if ds := distStep(t1[len(c.Tokens)]); len(ds) > 0 {
		if ds[0].Do == "dist" {
			fin.Do, fin.Arg = ds[0].Do, ds[0].Arg
		} else {
			plan = append(plan, ds[0])
		}
	}
	plan = append(plan, fin, sess.Step{W: "\x05", Tag: "final-redisplay"})
	if disturb && len(t2) > 0 {
		// t2: hold main's answer until the disturber's own query is seen
		var held []byte
		heldAt := 0
		var heldDist c20Dist
		env.T.Lock()
		env.T.DSRHook = func(n int, reply []byte) bool {
			if held != nil {
				// the disturber's query: answer both
				h := held
				held = nil
				mu.Lock()
				out.realised = append(out.realised, fmt.Sprintf("t2|%s|%s", heldDist.kindName(), heldDist.Order))
				mu.Unlock()
				switch heldDist.Order {
				case "main-first":
					env.T.M.Write(h)
					env.T.M.Write(reply)
				case "other-first":
					env.T.M.Write(reply)
					env.T.M.Write(h)
				default:
					env.T.M.Write(append(append([]byte{}, h...), reply...))
				}
				return true
			}
			di, ok := t2[n]
			if !ok {
				return false
			}
			delete(t2, n)
			held = append([]byte{}, reply...)
			heldAt = n
			heldDist = c.Dists[di]
			go func(at int) {
				fire(s, heldDist)
				// plumbing: if the disturber never queries, release main's answer
				time.Sleep(250 * time.Millisecond)
				env.T.Lock()
				if held != nil && heldAt == at {
					h := held
					held = nil
					env.T.M.Write(h)
				}
				env.T.Unlock()
			}(n)
			return true
		}
		env.T.Unlock()
	}
	res := s.Call(plan, retExit)
	env.T.Lock()
	env.T.DSRHook = nil
	env.T.Unlock()
	// let async printers finish (bounded)
	done := make(chan struct{})
	go func() { wg.Wait(); close(done) }()
	select {
	case <-done:
	case <-time.After(2 * time.Second):
		if n := int(atomic.LoadInt64(&printfActive)); n > 0 {
			if b := blockedFor(); b != "" {
				out.hungPrint = n
				out.async = append(out.async, b)
			}
		}
	}
	// goroutines of this session that outlive it would read the next session's terminal
	for k := 0; k < 20; k++ {
		out.leftover = false
		dump := sess.AllStacks()
		for _, marker := range []string{"display.WatchResize.func1", "(*Shell).Printf", "(*Shell).PrintTransientf"} {
			for _, g := range sess.Stanzas(dump, marker) {
				if !stale[gid(g)] {
					out.leftover = true
				}
			}
		}
		if !out.leftover {
			break
		}
		time.Sleep(10 * time.Millisecond)
	}
	out.line, out.err, out.returned, out.res = res.Line, res.Err, res.Returned, res
	return out
}

// c20TrimDump keeps the goroutines of a dump that run library code.
func c20TrimDump(dump string) string {
	var keep []string
	for _, g := range strings.Split(dump, "\n\n") {
		if strings.Contains(g, "reeflective/readline") {
			lines := strings.Split(g, "\n")
			if len(lines) > 24 {
				lines = lines[:24]
			}
			keep = append(keep, strings.Join(lines, "\n"))
		}
	}
	return strings.Join(keep, "\n\n")
}

func dsrCount(t *sess.Term) int {
	t.Lock()
	defer t.Unlock()
	return t.DSRs
}

func c20RunCase(env *fw.Env, raw json.RawMessage) fw.Outcome {
	var c c20Case
	unmarshal(raw, &c)
	var o fw.Out
	ctx := fmt.Sprintf("script=%q disturbances=%+v W=%d H=%d", c.Tokens, c.Dists, c.W, c.H)
	if c.Comp > 0 {
		ctx += fmt.Sprintf(" completer with %d candidates, listed by possible-completions", len(c20Cands[c.Comp]))
	}
	// plumbing: the logical detectors (deadlock, stuck keystroke) fire after 2 s without gate
	// activity; nothing else in these short scripts takes seconds
	sess.SessionWall = 8 * time.Second
	base := c20Session(env, &c, false)
	if !stdFailures(&o, base.res, ctx+" (undisturbed run)") {
		o.O.Sample = map[string]any{"ctx": ctx}
		return o.O
	}
	dist := c20Session(env, &c, true)
	o.O.Events += 2
	// Findings are keyed by the schedule class: with a clean schedule (single disturbances fired
	// while the main loop is parked in its read, each run to its end before the next key) the
	// library's hand-over of cursor reports is deterministic; overlapping schedules hit the
	// known unsynchronised paths.
	class := "overlapping-schedule"
	if c20Clean(&c) {
		class = "clean-schedule"
		if dist.unsettled > 0 {
			class = "overlapping-schedule"
			o.Add("clean_schedules_with_an_unconfirmed_settle", 1)
		}
	}
	o.Add("cases_"+class, 1)
	nf0 := len(o.O.Findings)
	defer func() {
		for i := nf0; i < len(o.O.Findings); i++ {
			o.O.Findings[i].Sig = class + "|" + o.O.Findings[i].Sig
		}
	}()
	if len(dist.async) > 0 || dist.unsettled > 0 || dist.hungPrint > 0 || dist.leftover {
		if dist.leftover {
			o.Add("sessions_leaving_goroutines_behind_worker_recycled_"+class, 1)
		}
		o.O.Recycle = true // goroutines of this session are left behind: fresh process for the next case
	}
	for _, b := range dist.async {
		o.Viol("async-redisplay-blocked-for-good:"+b, ctx+fmt.Sprintf(" realised=%v: a resize / Printf goroutine sits at the same blocking operation of its cursor-position query in two dumps taken apart (its report went elsewhere); Printf calls that never returned: %d\n%s", dist.realised, dist.hungPrint, c20TrimDump(dist.dump)))
	}
	for _, r := range dist.realised {
		o.Cover(r)
		o.Set("trigger_points_realised", r)
	}
	o.Add("disturbances_realised", len(dist.realised))
	if !stdFailures(&o, dist.res, ctx+" (disturbed run)") {
		o.O.Sample = map[string]any{"ctx": ctx, "realised": dist.realised}
		return o.O
	}
	if !dist.returned {
		o.Viol("call-did-not-return-after-the-exit-key", ctx)
	} else if dist.line != base.line || dist.err != base.err {
		o.Viol("returned-line-differs-from-the-undisturbed-run", ctx+fmt.Sprintf(" undisturbed (%q, %q) disturbed (%q, %q) realised=%v", base.line, base.err, dist.line, dist.err, dist.realised))
	}
	// screen after the final redisplay: the prompt and buffer on the cursor's row, nothing below
	res := dist.res
	if n := len(res.Waits); n > 0 && dist.returned {
		w := res.Waits[n-1]
		t := env.T
		t.Lock()
		W := t.W
		t.Unlock()
		if w.Kind == "main" && !strings.Contains(w.Line, "\n") && 2+len([]rune(w.Line)) < W-1 && w.Unk == 0 {
			o.O.Events++
			want := "> " + w.Line
			row := w.CurRow
			got := ""
			if row >= 0 && row < len(w.Grid[0]) {
				got = strings.TrimRight(cellsPrefix(w.Grid[0][row], W), " ")
			}
			okRow := got == strings.TrimRight(want, " ")
			okCol := w.CurCol == 2+w.Pos
			below := ""
			for r := row + 1; r < len(w.Grid[0]); r++ {
				if tx := strings.TrimSpace(cellsPrefix(w.Grid[0][r], W)); tx != "" {
					below = tx
				}
			}
			o.Add("final_frames_judged", 1)
			o.Add("final_frames_judged_"+class, 1)
			stale := ""
			if c.Comp > 0 {
				// a list was displayed and the terminal resized: the prompt and line are on
				// screen once, not also where an earlier frame left them
				o.Add("final_frames_judged_after_a_resize_under_a_displayed_completion_list", 1)
				for r := 0; r < len(w.Grid[0]); r++ {
					if tx := cellsPrefix(w.Grid[0][r], W); r != row && strings.HasPrefix(tx, "> ") {
						stale = fmt.Sprintf("row %d: %q", r, strings.TrimRight(tx, " "))
					}
				}
			}
			switch {
			case stale != "":
				state := "list-just-displayed"
				if len(c.Dists) > 0 && c.Dists[0].At > 2 {
					state = "list-lingering-after-a-typed-key"
				}
				o.Viol("screen-inconsistent-after-the-next-redisplay|second-copy-of-the-input-line-after-a-resize-under-a-completion-list|"+state, ctx+fmt.Sprintf(" realised=%v the input line is on the cursor row %d and also on %s\nscreen=%q", dist.realised, row, stale, gridText(w.Grid[0], 14)))
			case !okRow:
				o.Viol("screen-inconsistent-after-the-next-redisplay|cursor-row-is-not-prompt+buffer", ctx+fmt.Sprintf(" realised=%v cursor row %d shows %q, expected %q", dist.realised, row, got, want))
			case !okCol:
				o.Viol("screen-inconsistent-after-the-next-redisplay|cursor-column", ctx+fmt.Sprintf(" realised=%v cursor col %d, buffer position %d", dist.realised, w.CurCol, w.Pos))
			case below != "":
				o.Viol("screen-inconsistent-after-the-next-redisplay|text-below-the-input-line", ctx+fmt.Sprintf(" realised=%v below the input line: %q", dist.realised, below))
			}
		}
	}
	if env.Verbose {
		var frames []string
		for _, w := range res.Waits {
			frames = append(frames, fmt.Sprintf("wait %d %s step=%d line=%q pos=%d cur=(%d,%d) screen=%q", w.Idx, w.Kind, w.Step, w.Line, w.Pos, w.CurRow, w.CurCol, gridText(w.Grid[0], 14)))
		}
		o.O.Trace = frames
	}
	o.O.Sample = map[string]any{"script": fmt.Sprintf("%q", c.Tokens), "disturbances": c.Dists, "realised": dist.realised, "line": dist.line}
	return o.O
}

func cellsPrefix(row []vtCell, w int) string {
	if len(row) > w {
		row = row[:w]
	}
	return cellsText(row)
}

func init() {
	fw.Register(&fw.Prop{
		ID:        "C20",
		Level:     "exploration",
		NeedsTerm: true,
		Race:      true,
		Workers:   8,
		Rule: "application prints are Shell.Printf or Shell.PrintTransientf with a short, two-line, wider-than-the-terminal or empty text; scripts of 3-10 deterministic Emacs tokens (argument-reading commands have their command key and argument key as two tokens), each run undisturbed and then with 1-3 disturbances: SIGWINCH with a real size change (TIOCSWINSZ, alternating sizes), bursts of 2-20 SIGWINCH, Shell.Printf from a second goroutine; fired (t1) at an input wait - main loop wait or argument wait of a command - or (t2) inside a redisplay, with the emulator holding the answer to the main loop's k-th cursor query until the disturber's own query arrives and answering main-first / other-first / in one write. Half of the cases have a clean schedule: single disturbances at input waits, each fired while the main loop is really parked in its terminal read (the gate holds delivery) and run to its end (Printf returned / resize goroutine back in its select, read off goroutine dumps) before a helper types the next keys; the others overlap disturbances with typed keys and redisplays. One case in sixteen has a Completer: possible-completions displays a one-row or several-row list, the terminal shrinks to 2/5 of its width at the wait right after or one key later, and the final frame must show the input line once. Every finding is keyed by its schedule class; known findings exist for the overlapping class only. Oracles: no crash, no deadlock, no stuck keystroke (logical criteria), no resize/Printf goroutine blocked for good inside its cursor query (same blocking operation in two dumps taken apart; goroutines of earlier sessions excluded by id), returned (line, err) equals the undisturbed run, after a final harmless key the cursor's row shows prompt+buffer with the cursor on the right cell and nothing below, and the Go race detector reports no race outside the calibrated classes (reports are aggregated by the driver). " +
			"distinct non-trivial = distinct realised (trigger kind, disturbance kind, settle / answer order, wait kind) tuples",
		Assumptions: []string{"realisation of a trigger point is confirmed by the emulator having seen both cursor queries (t2) or by the gate (t1); the polls of a settle wait (2 s), the 300 ms between two dumps and the 250 ms release of a held answer are plumbing: a settle that cannot be confirmed makes the case 'overlapping', the verdict 'blocked for good' needs two identical dumps", "a session that leaves resize/Printf goroutines behind restarts the worker process", "Emacs mode, single-line buffers for the final frame oracle"},
		N: func(tier string) int {
			if tier == "thorough" {
				return 12000
			}
			return 320
		},
		Gen: c20Gen,
		Run: c20RunCase,
		// Rare, non-reproducible wrong final frames are a consequence of the known unsynchronised
		// concurrent redisplay (about 1 in 600 judged frames on the unchanged tree, calibrated over
		// 7 200 cases). A rate above 3 % of the judged frames (at least 100 judged, at least 4 wrong: the quick tier judges about 60 and is below that) is something else: a violation.
		Post: func(a *fw.Agg) {
			n := 0
			for sig, f := range a.Findings {
				if strings.HasPrefix(sig, "overlapping-schedule|screen-inconsistent-after-the-next-redisplay") {
					n += f.Count
				}
			}
			judged := a.Count["final_frames_judged_overlapping-schedule"]
			if judged >= 100 && n >= 4 && n*100 > judged*3 {
				a.Viol(-1, "final-frames-wrong-above-the-calibrated-rate", fmt.Sprintf("%d of %d judged final frames are wrong (calibrated bound 3 %%)", n, judged))
			}
		},
	})
}
