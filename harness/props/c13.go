package props

import (
	"encoding/json"
	"fmt"
	"math/rand"
	"os"
	"sort"
	"strings"

	"github.com/reeflective/readline"
	"github.com/reeflective/readline/inputrc"

	"verif/fw"
)

// C13: inputrc directives apply iff all enclosing conditions hold.

type c13Case struct {
	Prog  []rcNode            `json:"prog"`
	Files map[string][]rcNode `json:"files,omitempty"`
	Envs  []rcEnv             `json:"envs"`
	// the program is also loaded the way an application does: NewShell with INPUTRC naming the
	// file and the (mode, term, app) options
	Shell bool `json:"shell,omitempty"`
}

func c13Gen(r *rand.Rand, tier string, idx int) any {
	prog, files := genProgram(r)
	c := c13Case{Prog: prog, Files: files}
	c.Shell = idx%10 == 0 && len(files) == 0
	for i := 0; i < 8; i++ {
		c.Envs = append(c.Envs, rcEnv{Mode: pick(r, rcModes), Term: pick(r, rcTerms), App: pick(r, rcApps)})
	}
	return c
}

func libResult(cfg *inputrc.Config) rcResult {
	res := rcResult{Binds: map[string]map[string]rcBind{}, Vars: map[string]string{}}
	for km, m := range cfg.Binds {
		// Meta-x may be stored as 0x80|x or as ESC x and both are normalised to one key: when a
		// configuration holds both (the default one binds every byte 0x80-0xff to self-insert),
		// the ESC form, which is what a key sequence written in a file gives, is the one kept
		var seqs []string
		for seq := range m {
			seqs = append(seqs, seq)
		}
		sort.Slice(seqs, func(i, j int) bool {
			ei, ej := strings.ContainsRune(seqs[i], 0x1b), strings.ContainsRune(seqs[j], 0x1b)
			if ei != ej {
				return !ei
			}
			return seqs[i] < seqs[j]
		})
		for _, seq := range seqs {
			b := m[seq]
			if res.Binds[km] == nil {
				res.Binds[km] = map[string]rcBind{}
			}
			act := b.Action
			if b.Macro {
				act = normSeq(toInts(b.Action))
			}
			res.Binds[km][normSeq(toInts(seq))] = rcBind{Action: act, Macro: b.Macro}
		}
	}
	for k, v := range cfg.Vars {
		switch x := v.(type) {
		case bool:
			if x {
				res.Vars[k] = "on"
			} else {
				res.Vars[k] = "off"
			}
		default:
			res.Vars[k] = fmt.Sprint(v)
		}
	}
	return res
}

func maxDepth(ns []rcNode) int {
	d := 0
	for _, n := range ns {
		if n.Kind == "include" {
			if x := maxDepth(n.Body); x > d {
				d = x
			}
		}
		if n.Kind == "if" {
			x := 1 + maxDepth(n.Then)
			if y := 1 + maxDepth(n.Else); y > x {
				x = y
			}
			if x > d {
				d = x
			}
		}
	}
	return d
}

func c13Run(env *fw.Env, raw json.RawMessage) fw.Outcome {
	var c c13Case
	unmarshal(raw, &c)
	var o fw.Out
	text := renderNodes(c.Prog, "", nil)
	files := map[string]string{}
	for f, body := range c.Files {
		files[f] = renderNodes(body, "", nil)
	}
	depth := maxDepth(c.Prog)
	for _, e := range c.Envs {
		o.O.Events++
		cfg := inputrc.NewConfig()
		cfg.ReadFileFunc = func(name string) ([]byte, error) {
			if t, ok := files[name]; ok {
				return []byte(t), nil
			}
			return nil, os.ErrNotExist
		}
		var got rcResult
		var perr error
		func() {
			defer func() {
				if p := recover(); p != nil {
					perr = fmt.Errorf("panic: %v", p)
				}
			}()
			perr = inputrc.ParseBytes([]byte(text), cfg, inputrc.WithMode(e.Mode), inputrc.WithTerm(e.Term), inputrc.WithApp(e.App))
			got = libResult(cfg)
		}()
		want := evalProgram(c.Prog, e)
		gl, wl := renderResult(got), renderResult(want)
		nLive, nDead := len(wl), 0
		o.Cover(fmt.Sprintf("depth%d|live%d|inc%d", depth, min(nLive, 6), len(c.Files)))
		_ = nDead
		if perr != nil && strings.HasPrefix(perr.Error(), "panic") {
			o.Viol("parser-panic-on-well-formed-program", fmt.Sprintf("env=%+v %v\n%s", e, perr, text))
			break
		}
		if strings.Join(gl, "\n") == strings.Join(wl, "\n") {
			continue
		}
		// classify
		var extra, missing []string
		gm, wm := map[string]bool{}, map[string]bool{}
		for _, x := range gl {
			gm[x] = true
		}
		for _, x := range wl {
			wm[x] = true
		}
		for _, x := range gl {
			if !wm[x] {
				extra = append(extra, x)
			}
		}
		for _, x := range wl {
			if !gm[x] {
				missing = append(missing, x)
			}
		}
		sig := c13Classify(extra, missing, depth)
		if strings.Join(renderResult(evalProgramX(c.Prog, e, true)), "\n") == strings.Join(gl, "\n") {
			sig = "inner-if-evaluated-although-enclosing-block-inactive"
		}
		var ftxt []string
		for f, t := range files {
			ftxt = append(ftxt, "--- "+f+"\n"+t)
		}
		sort.Strings(ftxt)
		o.Viol(sig, fmt.Sprintf("env=%+v parse error=%v\nin the configuration but not expected: %v\nexpected but absent/different: %v\nprogram:\n%s%s", e, perr, extra, missing, clampStr(text, 1500), clampStr(strings.Join(ftxt, ""), 800)))
		break
	}
	if c.Shell && len(o.O.Findings) == 0 && !strings.Contains(text, "disable-completion") && !strings.Contains(text, "editing-mode") {
		c13ShellPath(env, &c, text, depth, &o)
	}
	o.O.Sample = map[string]any{"program": clampStr(text, 400), "envs": len(c.Envs), "depth": depth}
	return o.O
}

// overlay applies the result of an evaluation on top of a base configuration.
func overlay(base, top rcResult) rcResult {
	res := rcResult{Binds: map[string]map[string]rcBind{}, Vars: map[string]string{}}
	for km, m := range base.Binds {
		res.Binds[km] = map[string]rcBind{}
		for k, v := range m {
			res.Binds[km][k] = v
		}
	}
	for k, v := range base.Vars {
		res.Vars[k] = v
	}
	for km, m := range top.Binds {
		if res.Binds[km] == nil {
			res.Binds[km] = map[string]rcBind{}
		}
		for k, v := range m {
			res.Binds[km][k] = v
		}
	}
	for k, v := range top.Vars {
		res.Vars[k] = v
	}
	return res
}

// c13ShellPath: the start-up path of an application. Expected = the configuration of a Shell
// started without any user file, with the program's live directives on top.
func c13ShellPath(env *fw.Env, c *c13Case, text string, depth int, o *fw.Out) {
	path := env.Scratch + "/c13.inputrc"
	os.WriteFile(path, []byte(text), 0o644)
	old, had := os.LookupEnv("INPUTRC")
	defer func() {
		if had {
			os.Setenv("INPUTRC", old)
		} else {
			os.Unsetenv("INPUTRC")
		}
		os.Remove(path)
	}()
	for _, e := range c.Envs[:2] {
		opts := []inputrc.Option{inputrc.WithMode(e.Mode), inputrc.WithTerm(e.Term), inputrc.WithApp(e.App)}
		os.Setenv("INPUTRC", "/dev/null")
		base := libResult(readline.NewShell(opts...).Config)
		os.Setenv("INPUTRC", path)
		var got rcResult
		var perr error
		func() {
			defer func() {
				if p := recover(); p != nil {
					perr = fmt.Errorf("panic: %v", p)
				}
			}()
			got = libResult(readline.NewShell(opts...).Config)
		}()
		o.O.Events++
		o.Add("programs_loaded_through_newshell", 1)
		if perr != nil {
			o.Viol("shell-startup-panic-on-well-formed-program", fmt.Sprintf("env=%+v %v\n%s", e, perr, clampStr(text, 1500)))
			return
		}
		// Only what the program mentions (in any branch) is compared: the rest is the library's
		// default configuration, part of which differs from one NewShell to the next (the
		// built-in Vi arrow-key binds are loaded in map order).
		live := evalProgram(c.Prog, e)
		mentioned := rcResult{Binds: map[string]map[string]rcBind{}, Vars: map[string]string{}}
		for _, m := range rcModes {
			for _, t := range rcTerms {
				for _, a := range append([]string{"go"}, rcApps...) {
					mentioned = overlay(mentioned, evalProgram(c.Prog, rcEnv{Mode: m, Term: t, App: a}))
				}
			}
		}
		mentioned = overlay(mentioned, evalProgram(c.Prog, rcEnv{Mode: "", Term: "", App: "go"}))
		os.Setenv("INPUTRC", "/dev/null")
		base2 := libResult(readline.NewShell(opts...).Config)
		os.Setenv("INPUTRC", path)
		cmds := shellCommands()
		show := func(km, k string, b rcBind, ok bool) string {
			if !ok {
				return fmt.Sprintf("bind %s %q -> (unbound)", km, k)
			}
			return fmt.Sprintf("bind %s %q -> %q macro=%v", km, k, b.Action, b.Macro)
		}
		// diff compares the Shell's configuration with a model, on what the program mentions
		diff := func(model rcResult) (extra, missing []string) {
			for km, m := range mentioned.Binds {
				for k := range m {
					g, gok := got.Binds[km][k]
					if w, ok := model.Binds[km][k]; ok {
						// a function name the Shell does not know is not kept as written
						if !w.Macro && !cmds[w.Action] {
							continue
						}
						if !gok || g != w {
							extra = append(extra, show(km, k, g, gok))
							missing = append(missing, show(km, k, w, true))
						}
						continue
					}
					b1, ok1 := base.Binds[km][k]
					b2, ok2 := base2.Binds[km][k]
					if (gok == ok1 && g == b1) || (gok == ok2 && g == b2) {
						continue
					}
					extra = append(extra, show(km, k, g, gok))
					missing = append(missing, show(km, k, b1, ok1))
				}
			}
			for k := range mentioned.Vars {
				g := got.Vars[k]
				w, ok := model.Vars[k]
				if !ok {
					w = base.Vars[k]
				}
				if !strings.EqualFold(g, w) {
					extra = append(extra, "var "+k+"="+g)
					missing = append(missing, "var "+k+"="+w)
				}
			}
			sort.Strings(extra)
			sort.Strings(missing)
			return
		}
		extra, missing := diff(live)
		if len(extra) == 0 && len(missing) == 0 {
			continue
		}
		// Known deviations of the pinned start-up path, each recognised by its exact model:
		// (A) the file is parsed twice, first as application "go" without mode and terminal, and
		// what that pass applies stays unless the second pass overrides it; (B) C13's known
		// deviation of the parser (an inner $if ignores an inactive enclosing block); (A+B).
		firstEnv := rcEnv{Mode: "", Term: "", App: "go"}
		known := ""
		if x, m := diff(overlay(evalProgram(c.Prog, firstEnv), live)); len(x)+len(m) == 0 {
			known = "shell-startup-applies-else-branches-of-a-first-parse-as-application-go"
		} else if x, m := diff(evalProgramX(c.Prog, e, true)); len(x)+len(m) == 0 {
			known = "inner-if-evaluated-although-enclosing-block-inactive"
		} else if x, m := diff(overlay(evalProgramX(c.Prog, firstEnv, true), evalProgramX(c.Prog, e, true))); len(x)+len(m) == 0 {
			known = "shell-startup-applies-else-branches-of-a-first-parse-as-application-go+inner-if-evaluated-although-enclosing-block-inactive"
		}
		if known != "" {
			o.Viol(known, fmt.Sprintf("NewShell with INPUTRC=<program>, env=%+v: the configuration equals the model of the known deviation(s)\nin the configuration but not expected: %v\nexpected but absent/different: %v\nprogram:\n%s", e, tail(extra, 6), tail(missing, 6), clampStr(text, 1500)))
			return
		}
		sig := "shell-startup|" + c13Classify(extra, missing, depth)
		o.Viol(sig, fmt.Sprintf("NewShell with INPUTRC=<program>, env=%+v\nin the configuration but not expected: %v\nexpected but absent/different: %v\nprogram:\n%s", e, tail(extra, 6), tail(missing, 6), clampStr(text, 1500)))
		return
	}
}

func c13Classify(extra, missing []string, depth int) string {
	kind := func(ls []string) string {
		ks := map[string]bool{}
		for _, l := range ls {
			ks[strings.SplitN(l, " ", 2)[0]] = true
		}
		var out []string
		for k := range ks {
			out = append(out, k)
		}
		sort.Strings(out)
		return strings.Join(out, "+")
	}
	nest := "flat"
	if depth >= 2 {
		nest = "nested-if"
	} else if depth == 1 {
		nest = "one-level-if"
	}
	switch {
	case len(extra) > 0 && len(missing) == 0:
		return "directive-of-inactive-block-applied|" + kind(extra) + "|" + nest
	case len(missing) > 0 && len(extra) == 0:
		return "directive-of-active-block-not-applied|" + kind(missing) + "|" + nest
	default:
		// same key, different content?
		return "directive-applied-differently|" + kind(append(extra, missing...)) + "|" + nest
	}
}

func init() {
	fw.Register(&fw.Prop{
		ID:    "C13",
		Level: "exploration",
		Rule: "well-formed inputrc programs generated as an AST ($if mode=/term=/app nested up to depth 5, $else at any level, set keymap inside/outside inactive blocks, set of bool/int/string variables incl. one-character values, quoted-sequence and key-name binds, macros, comments, blank lines, $include of generated files served through ReadFileFunc), rendered to text and parsed into an empty Config under 8 (mode, term, app) settings each; oracle = Config.Binds/Config.Vars equal the maps computed by a reference evaluator over the AST (Meta-x accepted as 0x80|x or ESC x; variable values compared as text, on/off case-insensitively). One program in ten (those without $include) is also loaded the way an application does - NewShell with INPUTRC naming the file and the (mode, term, app) options, under 2 settings - and everything the program mentions in any branch is compared with the live directives applied on top of the configuration of a Shell started without a user file (function names the Shell does not register are not compared). " +
			"distinct non-trivial = distinct (max $if depth, live directive count class, include count) tuples",
		Assumptions: []string{"$include appears (at any $if depth) only while no `set keymap` has been written earlier in the program and included files contain no `set keymap` (what keymap an included file starts in is not fixed by the statement)", "term names without '-' (GNU's prefix rule for term= is not exercised)", "no two binds of one program share a sequence after Meta normalisation"},
		N: func(tier string) int {
			if tier == "thorough" {
				return 200000
			}
			return 20000
		},
		Gen: c13Gen,
		Run: c13Run,
	})
}

func has(m map[string]rcBind, k string) bool {
	_, ok := m[k]
	return ok
}

var shellCmds map[string]bool

// shellCommands: the command names a Shell registers.
func shellCommands() map[string]bool {
	if shellCmds == nil {
		old, had := os.LookupEnv("INPUTRC")
		os.Setenv("INPUTRC", "/dev/null")
		shellCmds = map[string]bool{}
		for name := range readline.NewShell().Keymap.Commands() {
			shellCmds[name] = true
		}
		if had {
			os.Setenv("INPUTRC", old)
		} else {
			os.Unsetenv("INPUTRC")
		}
	}
	return shellCmds
}
