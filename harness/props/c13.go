package props

import (
	"encoding/json"
	"fmt"
	"math/rand"
	"os"
	"sort"
	"strings"

	"github.com/reeflective/readline/inputrc"

	"verif/fw"
)

// C13: inputrc directives apply iff all enclosing conditions hold.

type c13Case struct {
	Prog  []rcNode            `json:"prog"`
	Files map[string][]rcNode `json:"files,omitempty"`
	Envs  []rcEnv             `json:"envs"`
}

func c13Gen(r *rand.Rand, tier string, idx int) any {
	prog, files := genProgram(r)
	c := c13Case{Prog: prog, Files: files}
	for i := 0; i < 8; i++ {
		c.Envs = append(c.Envs, rcEnv{Mode: pick(r, rcModes), Term: pick(r, rcTerms), App: pick(r, rcApps)})
	}
	return c
}

func libResult(cfg *inputrc.Config) rcResult {
	res := rcResult{Binds: map[string]map[string]rcBind{}, Vars: map[string]string{}}
	for km, m := range cfg.Binds {
		for seq, b := range m {
			if res.Binds[km] == nil {
				res.Binds[km] = map[string]rcBind{}
			}
			act := b.Action
			if b.Macro {
				act = normSeq(toInts(b.Action))
			}
			res.Binds[km][normSeq(toInts(seq))] = rcBind{Action: act, Macro: b.Macro}
		}
	}
	for k, v := range cfg.Vars {
		switch x := v.(type) {
		case bool:
			if x {
				res.Vars[k] = "on"
			} else {
				res.Vars[k] = "off"
			}
		default:
			res.Vars[k] = fmt.Sprint(v)
		}
	}
	return res
}

func maxDepth(ns []rcNode) int {
	d := 0
	for _, n := range ns {
		if n.Kind == "include" {
			if x := maxDepth(n.Body); x > d {
				d = x
			}
		}
		if n.Kind == "if" {
			x := 1 + maxDepth(n.Then)
			if y := 1 + maxDepth(n.Else); y > x {
				x = y
			}
			if x > d {
				d = x
			}
		}
	}
	return d
}

func c13Run(env *fw.Env, raw json.RawMessage) fw.Outcome {
	var c c13Case
	unmarshal(raw, &c)
	var o fw.Out
	text := renderNodes(c.Prog, "", nil)
	files := map[string]string{}
	for f, body := range c.Files {
		files[f] = renderNodes(body, "", nil)
	}
	depth := maxDepth(c.Prog)
	for _, e := range c.Envs {
		o.O.Events++
		cfg := inputrc.NewConfig()
		cfg.ReadFileFunc = func(name string) ([]byte, error) {
			if t, ok := files[name]; ok {
				return []byte(t), nil
			}
			return nil, os.ErrNotExist
		}
		var got rcResult
		var perr error
		func() {
			defer func() {
				if p := recover(); p != nil {
					perr = fmt.Errorf("panic: %v", p)
				}
			}()
			perr = inputrc.ParseBytes([]byte(text), cfg, inputrc.WithMode(e.Mode), inputrc.WithTerm(e.Term), inputrc.WithApp(strings.ToLower(e.App)))
			got = libResult(cfg)
		}()
		want := evalProgram(c.Prog, e)
		gl, wl := renderResult(got), renderResult(want)
		nLive, nDead := len(wl), 0
		o.Cover(fmt.Sprintf("depth%d|live%d|inc%d", depth, min(nLive, 6), len(c.Files)))
		_ = nDead
		if perr != nil && strings.HasPrefix(perr.Error(), "panic") {
			o.Viol("parser-panic-on-well-formed-program", fmt.Sprintf("env=%+v %v\n%s", e, perr, text))
			break
		}
		if strings.Join(gl, "\n") == strings.Join(wl, "\n") {
			continue
		}
		// classify
		var extra, missing []string
		gm, wm := map[string]bool{}, map[string]bool{}
		for _, x := range gl {
			gm[x] = true
		}
		for _, x := range wl {
			wm[x] = true
		}
		for _, x := range gl {
			if !wm[x] {
				extra = append(extra, x)
			}
		}
		for _, x := range wl {
			if !gm[x] {
				missing = append(missing, x)
			}
		}
		sig := c13Classify(extra, missing, depth)
		if strings.Join(renderResult(evalProgramX(c.Prog, e, true)), "\n") == strings.Join(gl, "\n") {
			sig = "inner-if-evaluated-although-enclosing-block-inactive"
		}
		var ftxt []string
		for f, t := range files {
			ftxt = append(ftxt, "--- "+f+"\n"+t)
		}
		sort.Strings(ftxt)
		o.Viol(sig, fmt.Sprintf("env=%+v parse error=%v\nin the configuration but not expected: %v\nexpected but absent/different: %v\nprogram:\n%s%s", e, perr, extra, missing, clampStr(text, 1500), clampStr(strings.Join(ftxt, ""), 800)))
		break
	}
	o.O.Sample = map[string]any{"program": clampStr(text, 400), "envs": len(c.Envs), "depth": depth}
	return o.O
}

func c13Classify(extra, missing []string, depth int) string {
	kind := func(ls []string) string {
		ks := map[string]bool{}
		for _, l := range ls {
			ks[strings.SplitN(l, " ", 2)[0]] = true
		}
		var out []string
		for k := range ks {
			out = append(out, k)
		}
		sort.Strings(out)
		return strings.Join(out, "+")
	}
	nest := "flat"
	if depth >= 2 {
		nest = "nested-if"
	} else if depth == 1 {
		nest = "one-level-if"
	}
	switch {
	case len(extra) > 0 && len(missing) == 0:
		return "directive-of-inactive-block-applied|" + kind(extra) + "|" + nest
	case len(missing) > 0 && len(extra) == 0:
		return "directive-of-active-block-not-applied|" + kind(missing) + "|" + nest
	default:
		// same key, different content?
		return "directive-applied-differently|" + kind(append(extra, missing...)) + "|" + nest
	}
}

func init() {
	fw.Register(&fw.Prop{
		ID:    "C13",
		Level: "exploration",
		Rule: "well-formed inputrc programs generated as an AST ($if mode=/term=/app nested up to depth 5, $else at any level, set keymap inside/outside inactive blocks, set of bool/int/string variables incl. one-character values, quoted-sequence and key-name binds, macros, comments, blank lines, $include of generated files served through ReadFileFunc), rendered to text and parsed into an empty Config under 8 (mode, term, app) settings each; oracle = Config.Binds/Config.Vars equal the maps computed by a reference evaluator over the AST (Meta-x accepted as 0x80|x or ESC x; variable values compared as text, on/off case-insensitively). " +
			"distinct non-trivial = distinct (max $if depth, live directive count class, include count) tuples",
		Assumptions: []string{"$include appears only while the keymap is still the default one and included files contain no `set keymap` (what keymap an included file starts in is not fixed by the statement)", "term names without '-' (GNU's prefix rule for term= is not exercised)", "no two binds of one program share a sequence after Meta normalisation"},
		N: func(tier string) int {
			if tier == "thorough" {
				return 200000
			}
			return 20000
		},
		Gen: c13Gen,
		Run: c13Run,
	})
}
