package props

import (
	"encoding/json"
	"fmt"
	"math/rand"
	"strings"

	"verif/fw"
	"verif/sess"
)

// C17: Vi delete removes exactly what yank would copy.

type c17Case struct {
	shellCfg
	Entry  int    `json:"entry"`
	Col    int    `json:"col"`
	Motion string `json:"motion"`
	Count  string `json:"count"`
	Visual bool   `json:"visual"`
	Up     int    `json:"up,omitempty"` // multi-line buffers: lines the cursor is moved up from the last one
	// keys typed in both sessions before the cursor is placed: an operator started and cancelled
	Prelude string `json:"prelude,omitempty"`
}

var c17Buffers = []string{"echo hello world", "git commit -m 'x y' --flag", "foo(bar[1]) {baz} <tag>", "a \"quoted (nested) str\" b", "one two  three   four", "x", "ab", "  indented text here", "path/to/file.txt;next",
	"世界 wörld ok fine", "func(a, b, c) tail", "if [ -f x ]; then echo `cmd`; fi", "a.b.c-d_e", "[[double]] ((paren))", "end.",
	"one\ntwo\nthree", "first line here\nsecond (x) line\nthird", "a b\n\nc d"}

func c17Motions() []string {
	ms := []string{"h", "l", "w", "b", "e", "W", "B", "E", "0", "$", "^", "%", "ge", "gE", "iw", "aw", "iW", "aW", "ia", "aa", "SAME"}
	for _, c := range []string{"o", "a", " ", "e", "x", "(", "t", "."} {
		ms = append(ms, "f"+c, "F"+c, "t"+c, "T"+c)
	}
	for _, c := range []string{"\"", "'", "(", ")", "[", "]", "{", "}", "<", "`"} {
		ms = append(ms, "i"+c, "a"+c)
	}
	return ms
}

func c17Gen(r *rand.Rand, tier string, idx int) any {
	c := c17Case{}
	c.Mode = "vi"
	c.W, c.H = 80, 24
	c.Inputrc = "set history-autosuggest off\nset convert-meta off\nset input-meta on\nset output-meta on\n"
	c.Hist = c17Buffers
	ms := c17Motions()
	// motions are enumerated round-robin so that every tier covers all of them
	c.Motion = ms[idx%len(ms)]
	c.Entry = r.Intn(len(c17Buffers))
	n := len([]rune(c17Buffers[c.Entry]))
	c.Col = r.Intn(n)
	if lines := strings.Split(c17Buffers[c.Entry], "\n"); len(lines) > 1 {
		// multi-line buffer: the cursor is put on one of its lines (k moves up inside the buffer)
		c.Up = r.Intn(len(lines))
		c.Col = r.Intn(len([]rune(lines[len(lines)-1-c.Up])) + 1)
	}
	if r.Intn(3) == 0 {
		c.Count = fmt.Sprint(2 + r.Intn(2))
	}
	c.Visual = r.Intn(4) == 0 && c.Motion != "SAME"
	if r.Intn(4) == 0 {
		c.Inputrc += "set blink-matching-paren on\n"
	}
	if r.Intn(5) == 0 {
		c.Prelude = pick(r, []string{"y\x1b", "d\x1b", "c\x1b\x1b", "y\x1bd\x1b"})
	}
	return c
}

// c17Session runs one operator (d or y) with the case's motion and returns the buffer before,
// the buffer after and the kill buffer after.
func c17Session(env *fw.Env, c *c17Case, op string) (before, after *sess.Snap, res *sess.Result, plan []sess.Step) {
	s := sess.New(env.T, env.Scratch, c.cfg())
	defer s.Close()
	add := func(w, tag string) { plan = append(plan, sess.Step{W: w, Tag: tag}) }
	add("\x1b", "esc")
	for i := 0; i < len(c17Buffers)-c.Entry; i++ {
		add("k", "recall")
	}
	for _, k := range c.Prelude {
		add(string(k), "prelude")
	}
	for i := 0; i < c.Up; i++ {
		add("k", "line-up")
	}
	add("0", "bol")
	for i := 0; i < c.Col; i++ {
		add("l", "move")
	}
	pre := len(plan)
	motion := c.Motion
	if motion == "SAME" {
		motion = op // dd / yy
	}
	if c.Visual {
		add("v", "visual")
		if c.Count != "" {
			add(c.Count, "count")
		}
		for _, k := range motion {
			add(string(k), "motion")
		}
		add(op, "op")
	} else {
		if c.Count != "" {
			add(c.Count, "count")
		}
		add(op, "op")
		for _, k := range motion {
			add(string(k), "motion")
		}
	}
	res = s.Call(plan, steps("\x1b", "\x03", "\x03"))
	for i := range res.Waits {
		w := &res.Waits[i]
		if w.Kind != "main" {
			continue
		}
		if w.Step == pre && before == nil {
			before = w
		}
		if w.Step == len(plan) && after == nil {
			after = w
		}
	}
	return
}

func c17Run(env *fw.Env, raw json.RawMessage) fw.Outcome {
	var c c17Case
	unmarshal(raw, &c)
	var o fw.Out
	ctx := fmt.Sprintf("buffer=%q lines-up=%d col=%d count=%q motion=%q visual=%v prelude=%q blink=%v", c17Buffers[c.Entry], c.Up, c.Col, c.Count, c.Motion, c.Visual, c.Prelude, strings.Contains(c.Inputrc, "blink-matching-paren on"))
	bA, aA, resA, _ := c17Session(env, &c, "d")
	if !stdFailures(&o, resA, ctx+" operator=d") {
		o.O.Sample = map[string]any{"ctx": ctx}
		return o.O
	}
	bB, aB, resB, _ := c17Session(env, &c, "y")
	if !stdFailures(&o, resB, ctx+" operator=y") {
		o.O.Sample = map[string]any{"ctx": ctx}
		return o.O
	}
	if bA == nil || aA == nil || bB == nil || aB == nil {
		o.Inc("before/after snapshot missing")
		o.Add("snapshot_missing|motion="+c.Motion+fmt.Sprintf("|visual=%v", c.Visual), 1)
		return o.O
	}
	if bA.Line != bB.Line || bA.Pos != bB.Pos {
		o.Inc("the two sessions did not start from the same state")
		return o.O
	}
	o.O.Events += 2
	mcls := c.Motion
	if len(mcls) == 2 && strings.ContainsAny(mcls[:1], "fFtT") {
		mcls = mcls[:1] + "<c>"
	}
	curCls := "mid"
	switch {
	case bA.Pos == 0:
		curCls = "start"
	case bA.Pos >= len([]rune(bA.Line))-1:
		curCls = "end"
	}
	o.Cover(fmt.Sprintf("%s|count%v|visual%v|%s|%s", mcls, c.Count != "", c.Visual, contentClass(bA.Line), curCls))
	L := bA.Line
	// yank leaves the buffer unchanged
	if aB.Line != L {
		o.Viol("yank-changed-the-buffer|"+mcls, ctx+fmt.Sprintf(" before %q after y %q", L, aB.Line))
	}
	removed := aA.Line != L
	copied := aB.Kill != bB.Kill || aB.Kill != ""
	switch {
	case !removed && aA.Kill == bA.Kill && aB.Kill == bB.Kill:
		o.Add("motions_that_selected_nothing", 1)
	case aA.Kill != aB.Kill:
		o.Viol("delete-and-yank-take-different-text|"+mcls+fmt.Sprintf("|visual%v", c.Visual), ctx+fmt.Sprintf(" from %q pos %d: d removed -> buffer %q register %q; y copied register %q", L, bA.Pos, aA.Line, aA.Kill, aB.Kill))
	default:
		// the removed text re-inserted at one place gives the original buffer
		LA := []rune(aA.Line)
		found := false
		// a line-wise register (dd / yy) conventionally carries the newline that ends the line
		for _, R := range [][]rune{[]rune(aA.Kill), []rune(strings.TrimSuffix(aA.Kill, "\n"))} {
			for p := 0; p <= len(LA); p++ {
				if string(LA[:p])+string(R)+string(LA[p:]) == L {
					found = true
					break
				}
			}
		}
		if !found {
			o.Viol("deleted-text-is-not-the-register-content|"+mcls, ctx+fmt.Sprintf(" from %q: after d %q, register %q", L, aA.Line, aA.Kill))
		}
		o.Add("pairs_with_text_taken", 1)
	}
	_ = copied
	o.O.Sample = map[string]any{"ctx": ctx, "after_d": aA.Line, "register_d": aA.Kill, "register_y": aB.Kill}
	return o.O
}

func init() {
	fw.Register(&fw.Prop{
		ID:        "C17",
		Level:     "exploration",
		NeedsTerm: true,
		Rule: "differential pairs of sessions from an identical state (one of 18 history-recalled buffers, three of them multi-line with the cursor moved up to any line, cursor placed with 0 and l): session A d<motion>, session B y<motion> (a quarter of the pairs v<motion>d / v<motion>y), counts none/2/3, motions enumerated round-robin over h l w b e W B E 0 $ ^ % ge gE iw aw iW aW ia aa, dd/yy, f/F/t/T with 8 target characters, i/a with 10 delimiters (73 motions); argument keys are delivered in their own read; oracle: y leaves the buffer unchanged, register(A) == register(B), and the buffer after d with the register re-inserted at one place equals the original. " +
			"distinct non-trivial = distinct (motion class, count?, visual?, buffer class, cursor class) tuples",
		Assumptions: []string{"both sessions start from the same observed (buffer, cursor); pairs that do not are inconclusive",
			"visual mode, f/F/t/T with a count: on the pinned tree the find command reads its argument key once per iteration, so the operator key that follows is consumed as the second argument and no operator runs; these pairs (about 2 %) are counted as inconclusive ('before/after snapshot missing', broken down by motion in the counters), the same motions without a count and in operator-pending mode are judged"},
		N: func(tier string) int {
			if tier == "thorough" {
				return 50000
			}
			return 2190
		},
		Gen: c17Gen,
		Run: c17Run,
	})
}
